#!/bin/sh
# MANIFEST.setup_cmd: warms the build caches (checks also build on demand). Offline.
set -e
cd "$(dirname "$0")"
export CARGO_NET_OFFLINE=true
python3 vf/build.py rel chk bin-rel bin-chk

#!/usr/bin/env python3-vt
import json, jsonschema, glob, sys
sch = json.load(open('/root/.vp/EVIDENCE.schema.json'))
bad = 0
for f in sorted(glob.glob('/verif/evidence/*.json')):
    try:
        jsonschema.validate(json.load(open(f)), sch)
    except Exception as e:
        bad += 1
        print("INVALID", f, str(e)[:300])
print("evidence files checked, invalid:", bad)
sys.exit(1 if bad else 0)

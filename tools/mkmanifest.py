#!/usr/bin/env python3
"""Regenerates MANIFEST.json from the table below (development tooling, not a check)."""
import json, os, subprocess, sys
V = os.path.dirname(os.path.dirname(os.path.abspath(__file__)))
sys.path.insert(0, V)
from tools.manifest_table import CHECKS, NOT_APPLICABLE, HOOK_COMMITS

props = [json.loads(l) for l in open(os.path.join(V, "properties.jsonl"))]
ids = [p["id"] for p in props]
checks = []
for pid in ids:
    if pid not in CHECKS:
        continue
    c = CHECKS[pid]
    checks.append({
        "property_id": pid,
        "quick_cmd": "./check %s quick" % pid,
        "thorough_cmd": "./check %s thorough" % pid,
        "evidence_file": "/verif/evidence/%s.json" % pid,
        "replay_cmd_template": "./check %s --replay {path}" % pid,
        "engine": c.get("engine", "vf"),
        "level_claimed": {"category": c.get("category", "exploration"), "text": c["text"], "design_ref": c.get("design_ref", "DESIGN.md section 4, " + pid)},
        "level_note": c["note"],
        "technique": c["technique"],
    })
na = [{"property_id": pid, "reason": NOT_APPLICABLE.get(pid, "check not built yet")} for pid in ids if pid not in CHECKS]
m = {
    "version": 1,
    "setup_cmd": "./setup.sh",
    "hooks": {
        "guard": "--cfg rws_verif",
        "enable": "RUSTFLAGS='--cfg rws_verif' (set per lane by vf/build.py); src/verif_hooks is compiled only under the cfg",
        "baseline_off_cmd": "cd /repo && cargo test --workspace --no-fail-fast --offline",
        "source_commits": HOOK_COMMITS,
        "add_only": True,
    },
    "engines": [
        {"name": "vh", "path": "/verif/harness", "serves_properties": [c["property_id"] for c in checks],
         "kind_free_text": "Rust executor linking /repo/src/main.rs as a library: executes generated cases on the real entry points (scripted transports, panic hook, crash journal), pool workloads observed through cfg(rws_verif) hooks, Miri bin, Base64 sweep"},
        {"name": "vf", "path": "/verif/vf", "serves_properties": [c["property_id"] for c in checks],
         "kind_free_text": "Python generators, reference models and oracles (strict HTTP parser, lookup / range / CORS / precedence models), black-box driver of the real rws binary (sockets, /proc census, strace, hook events), offline trace checkers"},
    ],
    "checks": checks,
    "not_applicable": na,
    "notes": "Runtime monitoring: every verdict reads 'held on the executions observed'. Exit 0 held / 1 VIOLATION / 3 INCONCLUSIVE (never folded into held). KNOWN_FINDINGS.txt lists recorded defects by mechanism signature.",
}
json.dump(m, open(os.path.join(V, "MANIFEST.json"), "w"), indent=1)
print("MANIFEST.json: %d checks, %d not_applicable" % (len(checks), len(na)))

#!/usr/bin/env python3
"""Development tooling: evaluate a free-form seeded change (round 3: the author chose the property) against ALL quick checks.
usage: eval_free.py <worktree> <variant> [--checks C01,C02] [--tier quick]  -> /tmp/seeded-results/<basename>-<variant>.json
The worktree is a scratch `git worktree` of /repo with SEEDED/<variant>.patch.diff, <variant>.demo.* and <variant>.meta.json."""
import sys, os, subprocess, json, time, shutil

V = os.path.dirname(os.path.dirname(os.path.abspath(__file__)))
OUT = "/tmp/seeded-results"
ALL = ["C%02d" % i for i in range(1, 21)]


def sh(cmd, cwd=None, env=None, timeout=3600):
    e = dict(os.environ)
    if env:
        e.update(env)
    try:
        p = subprocess.run(cmd, cwd=cwd, env=e, stdout=subprocess.PIPE, stderr=subprocess.STDOUT, shell=isinstance(cmd, str), timeout=timeout)
        return p.returncode, p.stdout.decode("utf-8", "replace")
    except subprocess.TimeoutExpired as ex:
        return 124, (ex.stdout or b"").decode("utf-8", "replace") + "\nTIMEOUT"


def clean(wt):
    sh(["git", "checkout", "--", "."], cwd=wt)
    sh(["git", "clean", "-fdq", "--", "src"], cwd=wt)


def main():
    wt, variant = sys.argv[1], sys.argv[2]
    checks, tier = ALL, "quick"
    a = sys.argv[3:]
    for i, x in enumerate(a):
        if x == "--checks":
            checks = a[i + 1].split(",")
        if x == "--tier":
            tier = a[i + 1]
    os.makedirs(OUT, exist_ok=True)
    tag = os.path.basename(wt.rstrip("/")) + "-" + variant
    sd = os.path.join(wt, "SEEDED")
    patch = os.path.join(sd, variant + ".patch.diff")
    res = {"worktree": wt, "variant": variant, "meta": json.load(open(os.path.join(sd, variant + ".meta.json")))}
    demo = None
    for ext, runner in ((".demo.py", ["python3"]), (".demo.sh", ["sh"])):
        if os.path.exists(os.path.join(sd, variant + ext)):
            demo = runner + [os.path.join(sd, variant + ext)]
    clean(wt)
    if demo:
        rc, o = sh(demo, cwd=wt, timeout=1500)
        res["demo_without_patch"] = {"rc": rc, "tail": o[-300:]}
    rc, o = sh(["git", "apply", patch], cwd=wt)
    if rc != 0:
        res["apply"] = "FAILED: " + o[-300:]
        json.dump(res, open(os.path.join(OUT, tag + ".json"), "w"), indent=1)
        print(tag, "patch does not apply")
        return
    try:
        rc, o = sh("cargo nextest run --workspace --no-fail-fast --test-threads 8 --offline 2>&1 | grep -E 'Summary|^\\s+FAIL|error' | sort | uniq", cwd=wt)
        res["test_suite"] = o.strip().splitlines()[:8]
        res["suite_ok"] = "470 passed" in o and all(("parse_long_form" in l) for l in o.splitlines() if "FAIL" in l)
        if demo:
            rc, o = sh(demo, cwd=wt, timeout=1500)
            res["demo_with_patch"] = {"rc": rc, "tail": o[-300:]}
        res["checks"] = {}
        env = {"VERIF_REPO": wt, "VERIF_CACHE": "/tmp/vc-" + tag, "VERIF_OUT": "/tmp/vo-" + tag, "VERIF_SEED": os.environ.get("VERIF_SEED", "0")}
        for ck in checks:
            t0 = time.time()
            rc, o = sh([os.path.join(V, "check"), ck, tier], cwd=V, env=env, timeout=2400)
            sigs = [l.strip()[len("signature: "):] for l in o.splitlines() if l.strip().startswith("signature:")]
            res["checks"][ck] = {"rc": rc, "detected": rc == 1 and "VIOLATION property=" in o, "signatures": sigs[:8], "wall_s": round(time.time() - t0, 1),
                                 "last": (o.strip().splitlines() or [""])[-1][:240]}
            json.dump(res, open(os.path.join(OUT, tag + ".json"), "w"), indent=1)
    finally:
        clean(wt)
        shutil.rmtree("/tmp/vc-" + tag, ignore_errors=True)
        shutil.rmtree("/tmp/vo-" + tag, ignore_errors=True)
    json.dump(res, open(os.path.join(OUT, tag + ".json"), "w"), indent=1)
    det = [k for k, x in res["checks"].items() if x["detected"]]
    odd = {k: x["rc"] for k, x in res["checks"].items() if x["rc"] not in (0, 1)}
    print(tag, "claims=%s" % res["meta"].get("breaks_property"), "suite_ok=%s" % res.get("suite_ok"), "demo(with,without)=(%s,%s)" % ((res.get("demo_with_patch") or {}).get("rc"), (res.get("demo_without_patch") or {}).get("rc")),
          "detected_by=%s" % (",".join(det) or "-"), ("odd_rc=%s" % odd) if odd else "", flush=True)


if __name__ == "__main__":
    main()

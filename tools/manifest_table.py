HOOK_COMMITS = ["82a0c2f", "f825266"]
NOT_APPLICABLE = {}

_A = "in-process engine (vh probe): real entry points on scripted transports, panic hook + crash journal + no-progress watchdog"
_B = "black-box engine: the shipped rws binary on a loopback port (responses, /proc worker census, exit status, log)"


def _c(technique, text, note, engine="vf+vh", category="exploration"):
    return {"technique": technique, "text": text, "note": note, "engine": engine, "category": category}


CHECKS = {
    "C01": _c("runtime monitoring: secret-marker containment oracle + climb=>error oracle over generated trees/targets on both entry points and the real binary; strace open() monitor (thorough)",
              "Held on the executions observed: thousands of targets from a dot-segment / encoding / non-origin-form grammar against trees with uniquely marked secrets at every ancestor level; any response byte-matching a secret marker or a 2xx/3xx for a climbing target is a violation. Exploration, not proof: an input class nobody generated is not covered.",
              "Trusts the marker planting (unique 20-hex tokens), the OS for realpath in the strace lane, and that in-process execution of Server::process / process_request is the code the binary runs."),
    "C02": _c("runtime monitoring: differential against a reference lookup evaluated by the OS on the same generated tree; metamorphic media-type check; entry-point differential",
              "Held on the generated trees x derived paths observed: status, exact bytes, Content-Length and media type compared with an independent lookup model (file | dir/index.html | path.html), incl. symlink shapes, sizes around buffer boundaries and near-miss paths.",
              "Trusts os.stat/open for the model, the core media-type table written in the harness; corners listed as 'not asserted' in DESIGN.md are counted, not judged."),
    "C03": _c("runtime monitoring: RFC 7233 reference model as oracle over a boundary-offset grammar of Range headers x file lengths; overflow-checks lane",
              "Held on the (L, Range) pairs observed: exact 206 slices and labels when all specs lie inside the file, otherwise 416 or self-consistent clamped slices; both arithmetic lanes and the real binary.",
              "Trusts the harness's range model and strict multipart/byteranges reader (self-tested)."),
    "C04": _c("runtime monitoring: panic hook, overflow-checks build, exit-status journal, strict response parser; grammar mutation + size/recursion stress on Server::process and the real binary (worker census, log scan)",
              "Held on the inputs observed: every execution must write exactly one well-formed response, return without unwinding, keep process and workers alive; unparseable request lines must get >= 400. Exploration over a mutation grammar, two build lanes, three handlers.",
              "Trusts the panic hook / journal attribution and the strict parser; a reset before any byte on oversized input is inconclusive at the socket and decided in-process."),
    "C05": _c("runtime monitoring: independent strict HTTP/1.1 parser on every response; canary-reflection monitor; short-write transport scripts compared with accept-all delivery",
              "Held on the responses and transport scripts observed: framing rules, no header added/split by request text, and byte-identical delivery under every chunk size 1..64 and a first-write boundary at every head byte (thorough).",
              "Short writes are only observable on the in-process scripted transport (Linux blocking sockets do not return short counts); it drives the same Server::process code."),
    "C06": _c("runtime monitoring over connection histories: fault injection at the socket (RST, half requests, bursts) and at the scripted transport (read/write/flush errors), /proc worker census, hook-event census, capacity probe with N-1 idle connections",
              "Held on the histories observed (fault enumeration: every fault kind alone x worker counts, plus random mixes longer than the pool): process alive, all N workers alive and back in their loop, valid request answered byte-exactly, N simultaneous connections served.",
              "Trusts /proc thread names and hook events for the census; bounded-progress restatement of 'still answers' (15 s bound on a < 5 ms operation).", category="fault_enumeration"),
    "C07": _c("runtime monitoring: event log from cfg(rws_verif) hook points checked offline (exactly-once, conservation, worker automaton, rendezvous, slow-task isolation) under seeded perturbation; Miri randomised scheduler (deadlock / race / UB); TSan (thorough)",
              "Held on the interleavings observed: thousands of perturbed native runs (distinct interleaving signatures counted) for N=1..8 and Miri seeds for small pools. Schedules are sampled, not enumerated.",
              "Hook commit 82a0c2f (add-only, off by default). Native no-progress watchdog 10 s on < 50 ms workloads; Miri explores only the seeds given."),
    "C08": _c("runtime monitoring: serial-vs-concurrent byte differential with unique self-identifying requests and foreign-token scan on the real binary (1..16 workers, up to 64/256 connections); in-process pool differential; TSan (thorough)",
              "Held on the rounds observed: every response under measured overlap equals the serial response (timestamp masked, form lines sorted) and carries no other connection's token.",
              "Overlap is measured from client timestamps; a round without overlap is re-run and otherwise reported inconclusive."),
    "C09": _c("runtime monitoring: GET/HEAD/OPTIONS response triples compared per path on both entry points and the real binary; preflight-success oracle",
              "Held on the (path, header set) triples observed for files, directory indexes, .html fallbacks, symlinks and built-in pages.",
              "200 vs 204 for OPTIONS is not asserted; HEAD on paths GET does not serve is not asserted."),
    "C10": _c("runtime monitoring: header-block monitor on every complete response of the C04 input space (both entry points, three handlers, read errors, real binary)",
              "Held on the responses observed; evidence lists which statuses were reached on which entry point and which are declared unreachable.",
              "500 (unreadable file) cannot be staged as root; 501 default is dead code."),
    "C11": _c("runtime monitoring: 30-line policy model as oracle over configurations x near-miss origins x methods, observed at Cors::get_headers, at the full response, and on the real binary configured via env / file / CLI",
              "Held on the (configuration, origin, method) triples observed, aimed at the substring-vs-equality boundary (prefix, suffix, interior, empty, comma-joined, case variants).",
              "Unparsable switch values are counted, not judged; Expose-Headers is only checked when present."),
    "C12": _c("runtime monitoring: precedence model vs a fresh child per configuration (real argv / cwd / environment) - all 88 (setting, source subset) pairs executed - plus the real binary's observable behaviour",
              "Exhaustive over 11 settings x 8 source subsets (88 start-ups) and every documented spelling; sampled cross-setting combinations for independence; 33+ real-binary starts.",
              "TOML values containing '#', spaces or '=' and multi-line arrays are not asserted."),
    "C13": _c("runtime monitoring: before/after filesystem manifests (sha256, mode, mtime, inode, link targets) of the tree and sentinels + strace -f monitor of every mutating syscall of the server process tree",
              "Held on the request campaigns observed (C04 space, upload-shaped requests, connection histories): no manifest difference, no mutating syscall anywhere.",
              "atime is excluded; writes to fds 1/2 (the log) are ignored."),
    "C14": _c("runtime monitoring: field-by-field round-trip oracle Request::parse(generate(r)) over generated requests; accept/reject boundary against a reference request-line grammar; both arithmetic lanes",
              "Held on the requests and request lines observed (tens of thousands of round trips, every method x version, non-UTF-8 byte at every position of a line).",
              "Serialiser byte layout is recorded, not judged; lower-case methods / double spaces are not asserted."),
    "C15": _c("runtime monitoring: round-trip oracle through both serialisers for every registered status, and must-reject corruption campaign",
              "Held on the responses observed: all registered statuses x part shapes x binary bodies; corruptions of the listed kinds must yield Err.",
              "Single-part ranges other than 0..len and parts without Content-Type are outside the asserted domain."),
    "C16": _c("runtime monitoring: round-trip oracle FormMultipartData::parse(generate(parts,b)) over body/boundary grammars, structural-deletion must-reject campaign, echo endpoint on the real binary",
              "Held on the part lists and boundaries observed (RFC 2046 boundary classes incl. interior hyphens; bodies 0..64 KiB with line breaks at either end).",
              "A boundary 'occurs in the data' when it is a substring of a body or header line; such cases are not generated."),
    "C17": _c("runtime monitoring: map-equality oracle through query parsing, form-body parsing and the two echo endpoints of the running server",
              "Held on the maps observed (reserved characters, '%'+hex for all 256 codes, non-hex, multi-byte, astral).",
              "Empty keys/values, duplicates and '+' as space are not asserted."),
    "C18": _c("runtime monitoring with exhaustive enumeration of the encoder's 3-byte group space (thorough) against a table-free reference encoder, cross-checked with Python base64; corruption campaign for the decoder",
              "Thorough tier executes all 16,843,009 inputs of length 0..3 in both arithmetic lanes (exhaustive: true); quick a seeded 1/16 stride; plus random strings up to 64 KiB.",
              "Trusts the arithmetic reference encoder and Python's base64."),
    "C19": _c("runtime monitoring: round-trip oracle on harness-defined structs implementing the library's traits + Python json as independent parser; delta-debugging shrinker names the essential feature of each failure",
              "Held on the values observed (every field kind, integer width boundaries, float classes, string classes, arrays 0..64, depth 0..4).",
              "NaN/inf, quotes, backslashes and control characters are outside the model."),
    "C20": _c("runtime monitoring: panic hook, overflow-checks lane, exit-status journal and no-progress watchdog around every public parsing entry point under structure-aware mutation (truncation at every position, nesting to 10000, long lines)",
              "Held on the inputs observed per entry point (40+ entry points x ~700 / ~40000 mutants x 2 lanes).",
              "A 4 s (quick) / 20 s (thorough) no-progress bound on microsecond operations decides 'fails to terminate'; entry points that hang repeatedly are cut short once reported."),
}


# additions made after the seeded-change rounds (DESIGN.md 9.3): appended to the technique descriptions above
_ADDED = {
    "C02": "; live-tree phase (files rewritten / deleted / re-created / re-pointed while one server runs), shuffled request order, served directories with odd names, files above 64 MiB over real sockets",
    "C04": "; chunked / dictionary / repetition-bomb request families; servers on ::1 and with a 128 KiB buffer; late senders; virtual-time calendar phase (LD_PRELOAD clock shim); libFuzzer lane on Server::process (thorough)",
    "C05": "; slow readers (2 KiB window) and a 24 MiB download paused for 18 s on real sockets",
    "C06": "; failing handlers over real sockets (vh srv: the real accept loop with an application that panics / errs / stalls on request), descriptor limit, stalled readers, virtual-time clock jumps; thorough: 70 s of real idleness",
    "C07": "; tasks that panic with 12 payload kinds followed by a rendezvous; a rendezvous of 300 workers",
    "C08": "; aged-vs-fresh server differential (history + clock jumps), cold-start simultaneous first requests vs a warm server, 90k-request hammer with client processes",
    "C11": "; cold concurrent first use in fresh processes (vh coldrace) and cold-start simultaneous first requests on the binary under a restricted policy",
    "C12": "; settings observed again after the config file is touched while serving; every worker of a configured pool must serve",
    "C13": "; one server living through clock jumps of a minute .. a year (LD_PRELOAD clock shim)",
    "C14": "; size sweeps around powers of two and exact buffer-sized totals; rejected inputs interleaved in-process; cold concurrent first use",
    "C15": "; rejected inputs interleaved in-process; cold concurrent first use",
    "C16": "; rejected inputs interleaved in-process; cold concurrent first use",
    "C17": "; rejected inputs interleaved in-process; size sweeps (values to 8 KiB, 1200 fields)",
    "C18": "; encoder-only pass to 1 MiB (4 MiB); wrapped text must be rejected; cold concurrent first use in fresh processes",
    "C19": "; float sweep in the executor (thorough: all 2^32 f32 bit patterns); wide collections; cold concurrent first use",
    "C20": "; repetition bombs to 250 KB / 1 MB, special-character inserts at every position, RFC 6266/5987/2231 seeds; libFuzzer lane (thorough)",
}
for _k, _extra in _ADDED.items():
    CHECKS[_k]["technique"] += _extra
CHECKS["C07"]["note"] = CHECKS["C07"]["note"].replace("Hook commit 82a0c2f (add-only, off by default).", "Hook commits 82a0c2f, f825266 (add-only, off by default).")

#!/usr/bin/env python3
"""Development tooling: evaluate independently seeded changes (sub-agent worktrees under /tmp/wt-Cxx/SEEDED) against the checks.
usage: eval_seeded.py C01 [C02 ...] [--checks C01,C05] [--tier quick]   -> writes /tmp/seeded-results/<Cxx>-<V>.json"""
import sys, os, subprocess, json, glob, time, shutil
V = os.path.dirname(os.path.dirname(os.path.abspath(__file__)))
OUT = "/tmp/seeded-results"
os.makedirs(OUT, exist_ok=True)


def sh(cmd, cwd=None, env=None, timeout=3600):
    e = dict(os.environ)
    if env:
        e.update(env)
    p = subprocess.run(cmd, cwd=cwd, env=e, stdout=subprocess.PIPE, stderr=subprocess.STDOUT, shell=isinstance(cmd, str), timeout=timeout)
    return p.returncode, p.stdout.decode("utf-8", "replace")


PREFIX = {"A": "/tmp/wt-", "B": "/tmp/wt-", "C": "/tmp/w2-", "D": "/tmp/w2-"}


def evaluate(prop, variant, checks, tier):
    wt = PREFIX[variant] + prop
    patch = os.path.join(wt, "SEEDED", variant + ".patch.diff")
    if not os.path.exists(patch):
        return None
    res = {"property": prop, "variant": variant, "patch": patch}
    sh(["git", "checkout", "--", "."], cwd=wt)
    sh(["git", "clean", "-fdq", "--", "src"], cwd=wt)
    rc, out = sh(["git", "apply", patch], cwd=wt)
    if rc != 0:
        res["apply"] = "FAILED: " + out[-300:]
        return res
    try:
        rc, out = sh("cargo nextest run --workspace --no-fail-fast --test-threads 8 --offline 2>&1 | grep -E 'Summary|^\\s+FAIL' | sort | uniq", cwd=wt)
        res["test_suite"] = out.strip().splitlines()
        res["suite_ok"] = ("470 passed" in out or "471 passed" in out) and all(("parse_long_form" in l) for l in out.splitlines() if "FAIL" in l)
        for ext, runner in ((".demo.py", ["python3"]), (".demo.sh", ["sh"])):
            demo = os.path.join(wt, "SEEDED", variant + ext)
            if os.path.exists(demo):
                rc, o = sh(runner + [demo], cwd=wt, timeout=1200)
                res["demo_with_patch"] = {"cmd": " ".join(runner + [demo]), "rc": rc, "tail": o[-400:]}
                break
        res["checks"] = {}
        for ck in checks:
            env = {"VERIF_REPO": wt, "VERIF_CACHE": "/tmp/vc-" + prop + ("" if variant in "AB" else "-2"), "VERIF_OUT": "/tmp/vo-%s-%s" % (prop, variant), "VERIF_SEED": os.environ.get("VERIF_SEED", "0")}
            t0 = time.time()
            rc, o = sh([os.path.join(V, "check"), ck, tier], cwd=V, env=env, timeout=7200)
            sigs = [l.strip()[len("signature: "):] for l in o.splitlines() if l.strip().startswith("signature:")]
            res["checks"][ck] = {"rc": rc, "detected": rc == 1 and "VIOLATION property=" in o, "signatures": sigs[:12], "wall_s": round(time.time() - t0, 1), "last": o.strip().splitlines()[-1][:300] if o.strip() else ""}
    finally:
        sh(["git", "checkout", "--", "."], cwd=wt)
        sh(["git", "clean", "-fdq", "--", "src"], cwd=wt)
    json.dump(res, open(os.path.join(OUT, "%s-%s.json" % (prop, variant)), "w"), indent=1)
    return res


if __name__ == "__main__":
    args = sys.argv[1:]
    tier, checks_override = "quick", None
    variants = ("A", "B")
    props = []
    i = 0
    while i < len(args):
        if args[i] == "--checks":
            i += 1
            checks_override = args[i].split(",")
        elif args[i] == "--variants":
            i += 1
            variants = tuple(args[i].split(","))
        elif args[i] == "--tier":
            i += 1
            tier = args[i]
        else:
            props.append(args[i])
        i += 1
    for p in props:
        for v in variants:
            r = evaluate(p, v, checks_override or [p], tier)
            if r:
                ck = r.get("checks", {})
                print(p, v, "suite_ok=%s" % r.get("suite_ok"), "demo_rc=%s" % (r.get("demo_with_patch") or {}).get("rc"), {k: (x["detected"], x["wall_s"], x["signatures"][:2]) for k, x in ck.items()}, flush=True)

#!/bin/sh
# development tooling: run every check of a tier sequentially, print one summary line per check
tier=${1:-quick}
cd /verif
mkdir -p .cache/runall
for i in 01 02 03 04 05 06 07 08 09 10 11 12 13 14 15 16 17 18 19 20; do
  s=$(date +%s)
  ./check C$i $tier > .cache/runall/C$i.$tier.out 2>&1
  rc=$?
  e=$(date +%s)
  echo "C$i rc=$rc $((e-s))s $(grep -c '^VIOLATION' .cache/runall/C$i.$tier.out) violations, $(grep -c '^KNOWN-FINDING' .cache/runall/C$i.$tier.out) known, $(grep -c '^INCONCLUSIVE' .cache/runall/C$i.$tier.out) inconclusive"
done

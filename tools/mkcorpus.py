#!/usr/bin/env python3
"""Development tooling: copies the crash witnesses of the last C04 / C20 runs into /verif/corpus (one file per signature).
Never run at check time; checks only read the corpus."""
import json, glob, os, base64, hashlib
V = os.path.dirname(os.path.dirname(os.path.abspath(__file__)))
os.makedirs(os.path.join(V, "corpus", "crashers"), exist_ok=True)
n = 0
for f in sorted(glob.glob(os.path.join(V, "replays", "C04", "*.json"))):
    d = json.load(open(f))
    b = d.get("request_b64")
    if not b:
        continue
    raw = base64.b64decode(b)
    if len(raw) > 12000:
        continue
    h = hashlib.sha256(d["signature"].encode()).hexdigest()[:12]
    with open(os.path.join(V, "corpus", "crashers", h + ".req"), "wb") as o:
        o.write(raw)
    with open(os.path.join(V, "corpus", "crashers", h + ".sig"), "w") as o:
        o.write(d["signature"] + "\n")
    n += 1
print("corpus: %d crashers" % n)

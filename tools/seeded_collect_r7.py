#!/usr/bin/env python3
"""Development tooling: copy the confirmed round-7 changes (free choice of property, focus area per contributor, scratch worktrees /tmp/w7-NN) into
/verif/seeded/R7-<NN>-<V>/ and write seeded/RESULTS_R7.md from /tmp/seeded-results/w7-*.json (tools/eval_free.py)."""
import os, json, glob, shutil, sys
V = os.path.dirname(os.path.dirname(os.path.abspath(__file__)))
RS = {k: ("passed", "failed") for k in ("05-F", "06-E", "06-F")}   # demo.rs run by hand both ways (without, with)
rows = []
for f in sorted(glob.glob("/tmp/seeded-results/w7-*.json")):
    ev = json.load(open(f))
    nn, v = os.path.basename(f)[3:5], os.path.basename(f)[6]
    sd = "/tmp/w7-%s/SEEDED" % nn
    am = ev.get("meta") or {}
    key = "R7-%s-%s" % (nn, v)
    dst = os.path.join(V, "seeded", key)
    os.makedirs(dst, exist_ok=True)
    shutil.copy(os.path.join(sd, v + ".patch.diff"), os.path.join(dst, "patch.diff"))
    demos = []
    for d in sorted(glob.glob(os.path.join(sd, v + ".demo.*"))):
        if d.endswith((".out", ".txt", ".log")):
            continue
        name = "demo" + d[len(os.path.join(sd, v + ".demo")):]
        shutil.copy(d, os.path.join(dst, name))
        demos.append(name)
    det = {k: x for k, x in (ev.get("checks") or {}).items() if x.get("detected")}
    odd = {k: x["rc"] for k, x in (ev.get("checks") or {}).items() if x.get("rc") not in (0, 1)}
    claimed = am.get("breaks_property")
    ran = ["git apply patch.diff in a scratch worktree of /repo at the current HEAD (outside /repo and /verif)",
           "cargo nextest run --workspace --no-fail-fast --test-threads 8 --offline -> %s" % "; ".join(ev.get("test_suite", []))]
    if ev.get("demo_with_patch"):
        ran.append("demonstration with the patch -> exit %s; without -> exit %s" % (ev["demo_with_patch"]["rc"], (ev.get("demo_without_patch") or {}).get("rc")))
    if "%s-%s" % (nn, v) in RS:
        ran.append("demo.rs appended to the test file named in its header, cargo nextest run <name>: without the patch -> %s, with the patch -> %s" % RS["%s-%s" % (nn, v)])
    ran.append("VERIF_REPO=<worktree with patch> ./check <Cxx> quick for the checks run -> VIOLATION from: %s" % (", ".join(sorted(det)) or "none"))
    meta = {"id": key, "breaks_property": claimed, "summary": am.get("summary"), "needs_to_manifest": am.get("needs_to_manifest"), "files_changed": am.get("files_changed"),
            "origin": "round 7: written by an independent sub-agent that saw only the twenty property texts, one-line summaries of earlier changes for its two assigned properties and a scratch worktree; asked to evade a checker built from the texts",
            "existing_test_suite_passes": bool(ev.get("suite_ok")), "demonstration_files": demos,
            "demonstration_with_patch": am.get("demo_result_with_patch"), "demonstration_without_patch": am.get("demo_result_without_patch"),
            "what_was_run": ran, "detected_by_quick_check": bool(det), "detected_by": sorted(det),
            "signatures": {k: x.get("signatures", [])[:3] for k, x in sorted(det.items())}, "checks_with_other_exit_codes": odd}
    json.dump(meta, open(os.path.join(dst, "meta.json"), "w"), indent=1, default=str)
    rows.append((key, claimed, (am.get("summary") or "")[:170].replace("|", "/").replace("\n", " "), (am.get("needs_to_manifest") or "")[:150].replace("|", "/").replace("\n", " "),
                 ", ".join(sorted(det)) or "NO", "; ".join(s[:80] for x in list(det.values())[:1] for s in x.get("signatures", [])[:2])))
with open(os.path.join(V, "seeded", "RESULTS_R7.md"), "w") as f:
    f.write("# Round 7: six contributors, property groups, all 155 earlier changes listed\n\nEach contributor was given a group of properties, the twenty property texts, one line about each of the 155 earlier changes and a scratch worktree. "
            "Each change compiles, passes the 470-test baseline and has a demonstration that fails with it and passes without it (re-run here). First pass (checks as they were before this round; the claimed property's check and a related one): 1 of 12 detected; "
            "`detected by` below = the current quick checks. R7-03-E (a job that waited more than 30 s of REAL time in the queue is dropped) is found by the 35 s queue-wait scenario of the thorough tier of C06.\n\n")
    f.write("| id | claims | change | needs to manifest | detected by | signatures (first check, first two) |\n|---|---|---|---|---|---|\n")
    for r in rows:
        f.write("| %s | %s | %s | %s | %s | %s |\n" % r)
    f.write("\n%d of %d detected.\n" % (sum(1 for r in rows if r[4] != "NO"), len(rows)))
print("collected", len(rows), "changes;", sum(1 for r in rows if r[4] != "NO"), "detected")

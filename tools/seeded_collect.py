#!/usr/bin/env python3
"""Development tooling: copy the confirmed seeded changes from the sub-agent worktrees into /verif/seeded/<id>/ and
(re)generate seeded/RESULTS.md from /tmp/seeded-results/*.json (written by tools/eval_seeded.py)."""
import os, json, glob, shutil
V = os.path.dirname(os.path.dirname(os.path.abspath(__file__)))
rs = {}
for f in ("/tmp/seeded-results/rs_demos.json", "/tmp/seeded-results/rs_demos2.json"):
    try:
        rs.update(json.load(open(f)))
    except OSError:
        pass
rows = []
for p in ["C%02d" % i for i in range(1, 21)]:
    for v in ("A", "B", "C", "D"):
        sd = "/tmp/%s-%s/SEEDED" % ("wt" if v in "AB" else "w2", p)
        patch = os.path.join(sd, v + ".patch.diff")
        if not os.path.exists(patch):
            continue
        dst = os.path.join(V, "seeded", "%s-%s" % (p, v))
        os.makedirs(dst, exist_ok=True)
        shutil.copy(patch, os.path.join(dst, "patch.diff"))
        demos = []
        for f in sorted(glob.glob(os.path.join(sd, v + ".demo.*"))):
            if f.endswith((".out", ".txt", ".log")):
                continue
            name = "demo" + f[len(os.path.join(sd, v + ".demo")):]
            shutil.copy(f, os.path.join(dst, name))
            demos.append(name)
        am = {}
        try:
            am = json.load(open(os.path.join(sd, v + ".meta.json")))
        except (OSError, ValueError):
            pass
        ev = {}
        try:
            ev = json.load(open("/tmp/seeded-results/%s-%s.json" % (p, v)))
        except (OSError, ValueError):
            pass
        ck = (ev.get("checks") or {}).get(p, {})
        by_other = ""
        if not ck.get("detected"):
            for other, x in (ev.get("checks") or {}).items():
                if other != p and x.get("detected"):
                    ck = dict(x)
                    by_other = other
        ran = ["git apply patch.diff in a scratch worktree of /repo HEAD (outside /repo and /verif)",
               "cargo nextest run --workspace --no-fail-fast --test-threads 8 --offline -> %s" % "; ".join(ev.get("test_suite", []))]
        if ev.get("demo_with_patch"):
            ran.append("%s with the patch -> exit %s" % (os.path.basename(ev["demo_with_patch"]["cmd"]), ev["demo_with_patch"]["rc"]))
        key = "%s-%s" % (p, v)
        if key in rs:
            ran.append("demo.rs appended to the test file named in its header, cargo nextest run: with patch -> %s | without patch -> %s" % (rs[key]["with"].replace("\n", " ; ")[:200], rs[key]["without"].replace("\n", " ; ")[:200]))
        ran.append("VERIF_REPO=<worktree with patch> ./check %s quick -> %s" % (p, "VIOLATION (%s)" % ", ".join(ck.get("signatures", [])[:3]) if ck.get("detected") else "not detected (exit %s)" % ck.get("rc")))
        meta = {
            "id": key, "breaks_property": p, "summary": am.get("summary"), "needs_to_manifest": am.get("needs_to_manifest"), "files_changed": am.get("files_changed"),
            "origin": "written by an independent sub-agent that saw only the property text and a scratch worktree",
            "existing_test_suite_passes": bool(ev.get("suite_ok")), "demonstration_files": demos,
            "demonstration_with_patch": am.get("demo_result_with_patch"), "demonstration_without_patch": am.get("demo_result_without_patch"),
            "what_was_run": ran,
            "detected_by_quick_check": bool(ck.get("detected")), "detected_by": (by_other or p) if ck.get("detected") else None, "signatures": ck.get("signatures", [])[:6], "check_wall_s": ck.get("wall_s"),
        }
        json.dump(meta, open(os.path.join(dst, "meta.json"), "w"), indent=1, default=str)
        rows.append((key, (am.get("summary") or "")[:150].replace("|", "/").replace("\n", " "), (am.get("needs_to_manifest") or "")[:150].replace("|", "/").replace("\n", " "), ("yes" + (" (by %s)" % by_other if by_other else "")) if ck.get("detected") else "NO",
                     "; ".join(s[:70] for s in ck.get("signatures", [])[:2]), ck.get("wall_s")))
with open(os.path.join(V, "seeded", "RESULTS.md"), "w") as f:
    f.write("# Independently seeded changes vs. the quick checks\n\nEach change was written by a sub-agent that saw only the property text and a scratch worktree; it compiles, passes the 470-test baseline, and comes with a demonstration that fails with it and passes without it (all re-run here). `detected` = `./check <property> quick` run against a scratch worktree with the patch applied exits 1 with a VIOLATION line.\n\n")
    f.write("| id | change | needs to manifest | detected | signatures (first two) | wall s |\n|---|---|---|---|---|---|\n")
    for r in rows:
        f.write("| %s | %s | %s | %s | %s | %s |\n" % r)
    f.write("\n%d of %d detected (by the property's own quick check unless another check is named).\n" % (sum(1 for r in rows if r[3].startswith("yes")), len(rows)))
print("collected", len(rows), "changes;", sum(1 for r in rows if r[3].startswith("yes")), "detected")

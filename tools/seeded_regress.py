#!/usr/bin/env python3
"""Development tooling: re-evaluate the kept seeded changes (/verif/seeded/<id>/patch.diff) against the current checks.

For each selected change: create a scratch git worktree of /repo under $SEEDED_SCRATCH (default /tmp/seeded-regress), apply
the patch there, run `./check <Cxx> <tier>` with VERIF_REPO pointing at the worktree (own cache and output directories, so
/repo, /verif/.cache and /verif/evidence are never touched), record whether a VIOLATION was reported, and remove the
worktree together with its caches.  Nothing is ever applied to /repo.

usage: seeded_regress.py [ids or property ids ...] [--checks C01,C05 | --all-checks] [--tier quick] [--jobs 4] [--out FILE]
"""
import sys, os, subprocess, json, time, shutil, glob
from concurrent.futures import ThreadPoolExecutor

V = os.path.dirname(os.path.dirname(os.path.abspath(__file__)))
REPO = os.environ.get("VERIF_REPO", "/repo")
SCRATCH = os.environ.get("SEEDED_SCRATCH", "/tmp/seeded-regress")
ALL = ["C%02d" % i for i in range(1, 21)]


def sh(cmd, cwd=None, env=None, timeout=7200):
    e = dict(os.environ)
    if env:
        e.update(env)
    p = subprocess.run(cmd, cwd=cwd, env=e, stdout=subprocess.PIPE, stderr=subprocess.STDOUT, timeout=timeout)
    return p.returncode, p.stdout.decode("utf-8", "replace")


def evaluate(sid, checks, tier):
    d = os.path.join(V, "seeded", sid)
    meta = json.load(open(os.path.join(d, "meta.json")))
    wt = os.path.join(SCRATCH, "wt-" + sid)
    cache = os.path.join(SCRATCH, "vc-" + sid)
    out = os.path.join(SCRATCH, "vo-" + sid)
    res = {"id": sid, "breaks_property": meta.get("breaks_property"), "checks": {}}
    sh(["git", "-C", REPO, "worktree", "remove", "--force", wt])
    shutil.rmtree(wt, ignore_errors=True)
    rc, o = sh(["git", "-C", REPO, "worktree", "add", "-q", "--detach", wt, "HEAD"])
    if rc != 0:
        res["error"] = "worktree: " + o[-300:]
        return res
    try:
        rc, o = sh(["git", "apply", os.path.join(d, "patch.diff")], cwd=wt)
        if rc != 0:
            res["error"] = "apply: " + o[-300:]
            return res
        own = meta.get("detected_by") or meta["breaks_property"]
        own = [x for x in own if x] if isinstance(own, list) else [own]
        if meta.get("breaks_property") in own:
            own = [meta["breaks_property"]]   # the claimed property's check suffices when it is among the detecting ones
        for ck in checks or own[:1]:
            env = {"VERIF_REPO": wt, "VERIF_CACHE": cache, "VERIF_OUT": out, "VERIF_SEED": os.environ.get("VERIF_SEED", "0")}
            t0 = time.time()
            rc, o = sh([os.path.join(V, "check"), ck, tier], cwd=V, env=env)
            sigs = [l.strip()[len("signature: "):] for l in o.splitlines() if l.strip().startswith("signature:")]
            res["checks"][ck] = {"rc": rc, "detected": rc == 1 and "VIOLATION property=" in o, "signatures": sigs[:8],
                                 "wall_s": round(time.time() - t0, 1), "last": (o.strip().splitlines() or [""])[-1][:240]}
    finally:
        sh(["git", "-C", REPO, "worktree", "remove", "--force", wt])
        for p in (wt, cache, out):
            shutil.rmtree(p, ignore_errors=True)
    return res


def main():
    args = sys.argv[1:]
    tier, checks, jobs, outf, sel = "quick", None, 3, None, []
    i = 0
    while i < len(args):
        a = args[i]
        if a == "--checks":
            i += 1
            checks = args[i].split(",")
        elif a == "--all-checks":
            checks = ALL
        elif a == "--tier":
            i += 1
            tier = args[i]
        elif a == "--jobs":
            i += 1
            jobs = int(args[i])
        elif a == "--out":
            i += 1
            outf = args[i]
        else:
            sel.append(a)
        i += 1
    ids = sorted(os.path.basename(p) for p in glob.glob(os.path.join(V, "seeded", "*")) if os.path.isdir(p))
    if sel:
        ids = [s for s in ids if s in sel or s.split("-")[0] in sel]
    os.makedirs(SCRATCH, exist_ok=True)
    results = []
    with ThreadPoolExecutor(max_workers=jobs) as ex:
        for r in ex.map(lambda s: evaluate(s, checks, tier), ids):
            results.append(r)
            det = [k for k, x in r["checks"].items() if x["detected"]]
            oth = {k: x["rc"] for k, x in r["checks"].items() if not x["detected"] and x["rc"] != 0}
            print(r["id"], "breaks=%s" % r["breaks_property"], "detected_by=%s" % (",".join(det) or "-"), ("other_nonzero=%s" % oth) if oth else "", r.get("error", ""), flush=True)
    if outf:
        json.dump(results, open(outf, "w"), indent=1)
    missed = [r["id"] for r in results if not any(x["detected"] for x in r["checks"].values())]
    print("%d change(s) evaluated, %d missed: %s" % (len(results), len(missed), " ".join(missed)))
    try:
        os.rmdir(SCRATCH)
    except OSError:
        pass
    return 0 if not missed else 1


if __name__ == "__main__":
    sys.exit(main())

#!/bin/sh
# development tooling: the repository's baseline test command (guard off). The baseline's always-failing
# entry_point::command_line_args::tests::parse_long_form is filtered out of the report.
cd /repo && cargo nextest run --workspace --no-fail-fast --test-threads 8 --offline 2>&1 | grep -E "^\s+(FAIL|SIGABRT|SIGSEGV|TIMEOUT)|Summary" | grep -v "parse_long_form" | sort | uniq

"""Per-run context: verdict discipline (held / violated / inconclusive), known findings, replays, evidence."""
import os, sys, json, time, hashlib, re, base64
from . import build, core

VERIF = build.VERIF
KNOWN_PATH = os.path.join(VERIF, "KNOWN_FINDINGS.txt")


def load_known():
    known = {}
    if not os.path.exists(KNOWN_PATH):
        return known
    for line in open(KNOWN_PATH, encoding="utf-8"):
        line = line.strip()
        if not line.startswith("known:"):
            continue
        m = re.match(r"known:\s+property=(\S+)\s+sig=(\S+)\s+::\s*(.*)$", line)
        if m:
            known.setdefault(m.group(1), {})[m.group(2)] = m.group(3)
    return known


def norm_msg(msg):
    """Normalise a panic / error message: digits and quoted payloads are not part of the mechanism."""
    # `unwrap()` on an Err carrying a string: the payload is input-dependent, the mechanism is not
    m = msg.split('"', 1)[0] + ('"_"' if '"' in msg else "")
    # Err payloads that are structs (FromUtf8Error { bytes: [..] }, ParseIntError { kind: .. }): keep the type name only
    m = re.sub(r"(Err` value: \w+) \{.*$", r"\1", m)
    # slice / char-boundary messages quote the offending text: `... of `<payload>``
    m = re.sub(r" of `.*$", " of `_`", m, flags=re.S)
    m = re.sub(r"inside '.*?' \(bytes", "inside '_' (bytes", m, flags=re.S)
    m = re.sub(r"'[^']*'", "'_'", m)
    m = re.sub(r"\d+", "N", m)
    m = re.sub(r"\s+", "_", m.strip())
    return m[:120]


def repo_rel(path):
    """Source file of a panic location relative to the repository / registry (stable under relocation)."""
    p = path.replace("\\", "/")
    r = build.REPO.rstrip("/") + "/"
    if p.startswith(r):
        return p[len(r):]
    m = re.search(r"/registry/src/[^/]+/(.+)$", p)
    if m:
        return "dep:" + m.group(1)
    m = re.search(r"/rustc/[0-9a-f]+/(.+)$", p) or re.search(r"/rustlib/src/rust/(.+)$", p)
    if m:
        return "std:" + m.group(1)
    return p


def crash_sig(prop, entry, obs):
    """crash class signature: kind : entry point : source file : normalised message"""
    if obs.outcome == "panic":
        msg = obs.panic_msg
        kind = "overflow" if ("overflow" in msg and "attempt to" in msg) else "panic"
        f, _, func = obs.panic_file.partition("|")
        func = re.sub(r"\{\{closure\}\}", "closure", func).replace(" ", "")
        # the typed array readers are one mechanism per element family, not one per width
        func = re.sub(r"parse_as_list_[iu]\d+$", "parse_as_list_<int>", func)
        func = re.sub(r"parse_as_list_f\d+$", "parse_as_list_<float>", func)
        where = func if func and func != "?" else "entry=" + entry
        return "%s:%s:%s:%s:%s" % (prop, kind, repo_rel(f), where, norm_msg(msg))
    if obs.outcome == "died":
        st = obs.info.get("stderr", "")
        what = "stack-overflow" if "overflowed its stack" in st else ("alloc-failure" if "memory allocation" in st else "signal")
        return "%s:abort:%s:%s:%s" % (prop, entry, obs.info.get("signal"), what)
    if obs.outcome == "timeout":
        return "%s:no-progress:%s" % (prop, entry)
    return "%s:%s:%s" % (prop, obs.outcome, entry)


class Ctx:
    def __init__(self, prop, tier, seed):
        self.prop, self.tier, self.seed = prop, tier, seed
        self.t0 = time.time()
        self.evaluations = 0
        self.classes = set()
        self.samples = []
        self.counters = {}
        self.violations = {}      # sig -> {count, first}
        self.inconclusive = []    # reasons
        self.must = {}            # category -> observed count
        self.assumptions = []
        self.rule = ""
        self.level = "exploration"
        self.extra = {}
        self.known = load_known().get(prop, {})
        self.rng = core.Rng(seed, prop, tier)
        self.quick = tier == "quick"

    # ---- bookkeeping
    def count(self, key, n=1):
        self.counters[key] = self.counters.get(key, 0) + n

    def ev(self, n=1):
        self.evaluations += n

    def cls(self, *tup):
        """register a distinct non-trivial case class"""
        self.classes.add(tup if len(tup) != 1 else tup[0])

    def sample(self, obj, cap=12):
        if len(self.samples) < cap:
            self.samples.append(obj)

    def need(self, category, n=0):
        """declare a must-observe category"""
        self.must.setdefault(category, 0)
        self.must[category] += n

    def seen(self, category, n=1):
        self.must[category] = self.must.get(category, 0) + n

    def inconc(self, reason):
        self.inconclusive.append(reason)

    def violation(self, sig, explanation, replay=None):
        v = self.violations.get(sig)
        if v is None:
            self.violations[sig] = {"count": 1, "explanation": explanation, "replay": replay or {}}
        else:
            v["count"] += 1

    def crash(self, entry, obs, case=None, extra=None):
        sig = crash_sig(self.prop, entry, obs)
        rp = {"observation": obs.summary()}
        if case is not None:
            rp["case"] = {"op": case.op, "fields_b64": [base64.b64encode(f if isinstance(f, bytes) else str(f).encode()).decode() for f in case.fields]}
            rp["meta"] = case.meta
        if extra:
            rp.update(extra)
        self.violation(sig, "%s on entry point %s: %s" % (obs.outcome, entry, obs.summary()), rp)
        return sig

    # ---- finish
    def finish(self):
        os.makedirs(os.path.join(build.OUT, "evidence"), exist_ok=True)
        rdir = os.path.join(build.OUT, "replays", self.prop)
        if os.path.isdir(rdir):
            for old in os.listdir(rdir):
                if old.endswith(".json"):
                    try:
                        os.remove(os.path.join(rdir, old))
                    except OSError:
                        pass
        new, known_hit = [], []
        for sig, v in sorted(self.violations.items()):
            if sig in self.known:
                known_hit.append((sig, v))
            else:
                new.append((sig, v))
        missing = [k for k, n in self.must.items() if n == 0]
        for k in missing:
            self.inconclusive.append("must-observe category never observed: " + k)
        lines = []
        for sig, v in known_hit:
            lines.append("KNOWN-FINDING: property=%s %s [sig=%s, seen %d times this run]" % (self.prop, self.known[sig], sig, v["count"]))
        replay_paths = []
        if new:
            os.makedirs(rdir, exist_ok=True)
        for sig, v in new:
            h = hashlib.sha256(sig.encode()).hexdigest()[:12]
            path = os.path.join(rdir, h + ".json")
            doc = {"property": self.prop, "signature": sig, "seed": self.seed, "tier": self.tier, "count": v["count"], "explanation": v["explanation"]}
            doc.update(v["replay"])
            with open(path, "w") as f:
                json.dump(doc, f, indent=1, default=repr)
            replay_paths.append(path)
            lines.append("VIOLATION property=%s replay=%s" % (self.prop, path))
            lines.append("  signature: %s" % sig)
            lines.append("  what: %s (x%d)" % (v["explanation"][:600], v["count"]))
        cov = {
            "evaluations": int(self.evaluations),
            "distinct_nontrivial": len(self.classes),
            "rule": self.rule,
            "samples": self.samples[:12] or ["(none)"],
            "counters": dict(sorted(self.counters.items())),
            "must_observe": dict(sorted(self.must.items())),
            "inconclusive": len(self.inconclusive),
            "inconclusive_reasons": self.inconclusive[:20],
            "known_findings_hit": [s for s, _ in known_hit],
            "new_violation_signatures": [s for s, _ in new],
        }
        cov.update(self.extra)
        evd = {
            "property_id": self.prop, "tier": self.tier, "seed": int(self.seed), "level": self.level,
            "coverage": cov, "assumptions": self.assumptions, "wall_s": round(time.time() - self.t0, 2),
            "violations": len(new),
        }
        with open(os.path.join(build.OUT, "evidence", self.prop + ".json"), "w") as f:
            json.dump(evd, f, indent=1, default=repr, ensure_ascii=True)
        for l in lines:
            print(l)
        summary = "%s %s seed=%d: %d evaluations, %d distinct non-trivial classes, %d new violation signature(s), %d known, %d inconclusive, %.1fs" % (
            self.prop, self.tier, self.seed, self.evaluations, len(self.classes), len(new), len(known_hit), len(self.inconclusive), time.time() - self.t0)
        print(summary)
        if new:
            return 1
        if self.inconclusive:
            for r in self.inconclusive[:10]:
                print("INCONCLUSIVE property=%s %s" % (self.prop, r))
            return 3
        return 0

"""Thorough-tier workload amplifier: coverage-guided libFuzzer over the probe's entry-point table (C20, C04).
The deciding monitors are the same as in the probe lane (panic hook, exit status, no-progress bound); libFuzzer only
chooses the inputs. Artefacts (aborts, time-outs) are replayed through `vh probe` for classification."""
import os, re, subprocess, shutil, glob, time, base64
from . import core, build, ctx as ctxmod

# must mirror OPS in harness/fuzz/fuzz_targets/parsers.rs (checked at run time through a selftest input per entry)
OPS = [("json.parse.props", 0), ("json.parse.struct", 0), ("json.parse.prop", 0), ("json.parse.split", 0), ("json.parse.l_obj", 0),
       ("json.parse.l_str", 0), ("json.parse.l_bool", 0), ("json.parse.l_null", 0), ("json.parse.l_f32", 0), ("json.parse.l_f64", 0),
       ("json.parse.l_i8", 0), ("json.parse.l_i64", 0), ("json.parse.l_i128", 0), ("json.parse.l_u8", 0), ("json.parse.l_u128", 0),
       ("b64.decode", 0), ("mp.parse", 1), ("mp.boundary", 0), ("req.parse", 0), ("resp.parse", 0), ("resp._parse", 0),
       ("resp.hdr", 0), ("resp._hdr", 0), ("resp.status_line", 0), ("req.hdr", 0), ("req.line", 0), ("hdr.parse", 0), ("cd.parse", 0),
       ("range.parse", 2), ("range.content", 3), ("range.crhv", 0), ("range.rawcrhv", 0), ("range.mp", 0), ("range._mp", 0), ("range.mpb", 4),
       ("form.parse", 0), ("url.parse", 0), ("query.parse", 0), ("url.decode", 0), ("req.uri", 0), ("cfg.read", 5),
       ("urlpath.parts", 0), ("urlpath.is_matching", 6), ("urlpath.extract", 6), ("serve", 7)]
OP_INDEX = {op: i for i, (op, _) in enumerate(OPS)}


def fields(shape, data):
    def split(d, sep):
        i = d.find(sep)
        return (d, b"") if i < 0 else (d[:i], d[i + 1:])
    if shape == 1:
        return list(split(data, b"\n"))
    if shape == 2:
        return [b"100", data]
    if shape == 3:
        return [b"/repo-file", b"1000", data]
    if shape == 4:
        return [b"String_separator", data]
    if shape == 5:
        return [data, b""]
    if shape == 6:
        return list(split(data, b"|"))
    if shape == 7:
        return [b"process", b"app", b"10000", b"ok", b"all", b"ok", data]
    return [data]


def run(c, prop, seconds, seeds, cwd, only_ops=None, jobs=16):
    """seeds: list of (op, bytes). Returns stats dict; violations are registered on c."""
    binary, hdir = build.fuzz_build()
    d = core.scratch("fuzz-")
    try:
        corpus, art = os.path.join(d, "corpus"), os.path.join(d, "art")
        os.makedirs(corpus)
        os.makedirs(art)
        n = 0
        for op, doc in seeds:
            if op not in OP_INDEX or (only_ops and op not in only_ops):
                continue
            with open(os.path.join(corpus, "seed%05d" % n), "wb") as f:
                f.write(bytes([OP_INDEX[op]]) + doc[:20000])
            n += 1
        findings = os.path.join(d, "findings.tsv")
        env = dict(os.environ)
        if only_ops:
            env["VH_FUZZ_OPS"] = ",".join(str(OP_INDEX[o]) for o in sorted(only_ops) if o in OP_INDEX)
        os.makedirs(os.path.join(d, "tmp"), exist_ok=True)
        env["TMPDIR"] = os.path.join(d, "tmp")   # libFuzzer's fork mode keeps its working directories under $TMPDIR: inside the scratch area, removed with it
        env.update({"VH_FUZZ_FINDINGS": findings, "VH_FUZZ_QUIET": "1", "ASAN_OPTIONS": "detect_leaks=0:allocator_may_return_null=1", "RUST_BACKTRACE": "0"})
        cmd = [binary, corpus, "-fork=%d" % jobs, "-ignore_crashes=1", "-ignore_timeouts=1", "-ignore_ooms=1", "-timeout=10", "-rss_limit_mb=4096",
               "-max_total_time=%d" % seconds, "-len_control=0", "-max_len=20000", "-artifact_prefix=%s/" % art]
        t0 = time.time()
        execs = cov = corp = 0
        err = ""
        for attempt in range(2):
            try:
                p = subprocess.run(cmd, cwd=cwd, env=env, stdout=subprocess.DEVNULL, stderr=subprocess.PIPE, timeout=seconds + 600)
                err = p.stderr.decode("utf-8", "replace")
            except subprocess.TimeoutExpired as ex:
                err = (ex.stderr or b"").decode("utf-8", "replace")
                c.count("libfuzzer_did_not_stop_within_its_time_budget")
            for m in re.finditer(r"#(\d+): cov: (\d+) ft: \d+ corp: (\d+)", err):
                execs, cov, corp = int(m.group(1)), int(m.group(2)), int(m.group(3))
            if execs:
                break
            # seen once on a loaded machine: every fork child hit the RSS limit while reading the seed corpus
            c.count("libfuzzer_lane_attempts_that_executed_nothing")
        stats = {"executions": execs, "coverage_edges": cov, "corpus_units": corp, "seed_inputs": n, "wall_s": round(time.time() - t0, 1), "jobs": jobs}
        if execs == 0:
            # the lane is an amplifier on top of the deterministic campaign of the same check: when the fuzzer itself cannot
            # run, that is recorded in the evidence (no executions, the tail of its log) and the verdict rests on the campaign
            stats["status"] = "did not run: " + err[-300:]
            return stats
        c.ev(execs)
        # findings written by the target (panics caught in-process, missing responses): replayed through `vh probe`
        # so that they get the same mechanism signature as in the probe lane (symbolisation differs between builds)
        nf = 0
        replay = []
        if os.path.exists(findings):
            for ln in open(findings, errors="replace"):
                w = ln.rstrip("\n").split("\t")
                if len(w) < 6:
                    continue
                try:
                    kind, op, msg, inp = w[0], w[1], core.unhx(w[2]).decode("utf-8", "replace"), core.unhx(w[5])
                except ValueError:
                    continue   # torn line
                shape = dict(OPS).get(op, 0)
                replay.append((kind, op, msg, inp, core.Case("f%d" % len(replay), op, fields(shape, inp[1:]), {"engine": "libfuzzer"})))
        if replay:
            obs = core.run_cases([r[4] for r in replay], lane="rel", cwd=cwd, per_case_timeout=20)
            seen = set()
            for kind, op, msg, inp, cs in replay:
                o = obs.get(cs.id)
                if o is not None and o.outcome in ("panic", "died", "timeout"):
                    sig = c.crash(op, o, cs, {"engine": "libfuzzer", "input_b64": base64.b64encode(inp[:4000]).decode()})
                elif kind == "noresponse":
                    sig = "%s:no-response:fuzz:%s" % (prop, op)
                    c.violation(sig, "libFuzzer lane: no bytes written by %s" % op, {"engine": "libfuzzer", "input_b64": base64.b64encode(inp[:4000]).decode()})
                else:
                    sig = "%s:panic:fuzz-build-only:%s:%s" % (prop, op, ctxmod.norm_msg(msg))
                    c.violation(sig, "libFuzzer lane (ASan build, debug assertions on): panic in %s that the release probe does not reproduce: %s" % (op, msg[:200]), {"engine": "libfuzzer", "input_b64": base64.b64encode(inp[:4000]).decode()})
                if sig not in seen:
                    seen.add(sig)
                    nf += 1
        # artefacts of the fuzzer itself: aborts (stack exhaustion), time-outs
        arts = sorted(glob.glob(os.path.join(art, "*")))
        cases = []
        for i, a in enumerate(arts[:200]):
            data = open(a, "rb").read()
            if not data:
                continue
            allowed = [OP_INDEX[o] for o in sorted(only_ops) if o in OP_INDEX] if only_ops else []
            op, shape = OPS[allowed[data[0] % len(allowed)]] if allowed else OPS[data[0] % len(OPS)]
            cases.append(core.Case("a%d" % i, op, fields(shape, data[1:]), {"artifact": os.path.basename(a)}))
        if cases:
            for lane in ("rel",):
                obs = core.run_cases(cases, lane=lane, cwd=cwd, per_case_timeout=20)
                for cs in cases:
                    o = obs.get(cs.id)
                    if o is not None and o.outcome in ("panic", "died", "timeout"):
                        c.crash(cs.op, o, cs, {"engine": "libfuzzer-artifact", "artifact": cs.meta["artifact"]})
                        nf += 1
        stats["findings"] = nf
        stats["artifacts"] = len(arts)
        return stats
    finally:
        shutil.rmtree(d, ignore_errors=True)

"""Filesystem manifests and strace log analysis (C13)."""
import os, hashlib, stat, re


def manifest(root):
    """{relative path: (type, size, sha256, link target, mode, mtime_ns, inode)} - atime deliberately excluded"""
    out = {}
    for dp, dns, fns in os.walk(root, followlinks=False):
        for n in dns + fns:
            p = os.path.join(dp, n)
            rel = os.path.relpath(p, root)
            try:
                st = os.lstat(p)
            except OSError:
                continue
            if stat.S_ISLNK(st.st_mode):
                out[rel] = ("link", st.st_size, None, os.readlink(p), st.st_mode, st.st_mtime_ns, st.st_ino)
            elif stat.S_ISDIR(st.st_mode):
                out[rel] = ("dir", None, None, None, st.st_mode, st.st_mtime_ns, st.st_ino)
            else:
                h = hashlib.sha256()
                try:
                    with open(p, "rb") as f:
                        for chunk in iter(lambda: f.read(1 << 20), b""):
                            h.update(chunk)
                    digest = h.hexdigest()
                except OSError:
                    digest = "unreadable"
                # ctime: the inode was written (chmod, utime / futimens with the old values, link count) even when nothing else shows
                out[rel] = ("file", st.st_size, digest, None, st.st_mode, st.st_mtime_ns, st.st_ino, st.st_ctime_ns)
    return out


def diff(a, b):
    """list of (kind, path, before, after)"""
    out = []
    for p in sorted(set(a) | set(b)):
        if p not in b:
            out.append(("deleted", p, a[p], None))
        elif p not in a:
            out.append(("created", p, None, b[p]))
        elif a[p] != b[p]:
            what = "altered"
            if a[p][0] == b[p][0] and a[p][:4] == b[p][:4] and a[p][4] != b[p][4]:
                what = "mode-changed"
            elif a[p][:5] == b[p][:5] and a[p][6] == b[p][6]:
                what = "mtime-changed"
            elif a[p][6] != b[p][6] and a[p][:4] == b[p][:4]:
                what = "replaced (new inode)"
            elif a[p][:7] == b[p][:7]:
                what = "inode-metadata-written (ctime)"
            out.append((what, p, a[p], b[p]))
    return out


MUTATING = ("unlink", "unlinkat", "rename", "renameat", "renameat2", "mkdir", "mkdirat", "rmdir", "link", "linkat", "symlink", "symlinkat", "truncate", "ftruncate", "chmod", "fchmod", "fchmodat",
            "chown", "fchown", "lchown", "fchownat", "utime", "utimes", "utimensat", "futimesat", "mknod", "mknodat", "setxattr", "lsetxattr", "fsetxattr", "removexattr", "creat", "fallocate", "copy_file_range")
WRITE_FLAGS = ("O_WRONLY", "O_RDWR", "O_CREAT", "O_TRUNC", "O_APPEND")


def strace_findings(path):
    """returns (mutating syscalls [(syscall, line)], opens_inspected, file_writes [(fd path, line)])"""
    bad, opens = [], 0
    fd_paths = {}
    writes = []
    for ln in open(path, errors="replace"):
        m = re.match(r"^(\d+)\s+(\w+)\((.*)$", ln)
        if not m:
            continue
        pid, sc, rest = m.group(1), m.group(2), m.group(3)
        if "<unfinished" in ln and "= " not in ln:
            pass
        if sc in ("open", "openat"):
            opens += 1
            pm = re.search(r'"([^"]*)", ([A-Z_|0-9]+)', rest)
            rm = re.search(r"= (-?\d+)", rest)
            if pm:
                pth, flags = pm.group(1), pm.group(2)
                if any(f in flags.split("|") for f in WRITE_FLAGS):
                    if pth not in ("/dev/null", "/dev/tty") and not pth.startswith("/proc/self/"):
                        bad.append((sc + ":" + "|".join(f for f in flags.split("|") if f in WRITE_FLAGS), ln.strip()[:240]))
                if rm and int(rm.group(1)) >= 0:
                    fd_paths[(pid, rm.group(1))] = pth
        elif sc in MUTATING:
            bad.append((sc, ln.strip()[:240]))
        elif sc in ("write", "pwrite64", "writev", "sendfile"):
            fm = re.match(r"(\d+)", rest)
            if fm and fm.group(1) not in ("1", "2"):
                p = fd_paths.get((pid, fm.group(1)))
                if p is not None:
                    writes.append((p, ln.strip()[:200]))
    return bad, opens, writes

"""Engine B: start / drive / observe the real rws binary on a loopback port."""
import os, socket, subprocess, time, re, struct, signal, threading
from . import build, core


def free_port():
    s = socket.socket()
    s.bind(("127.0.0.1", 0))
    p = s.getsockname()[1]
    s.close()
    return p


class Server:
    def __init__(self, root, threads=4, lane="rel", env=None, args=None, trace=False, strace=False, config_file=None,
                 port=None, ip="127.0.0.1", use_default_args=True, mixed_app=False, virtual_time=False, nofile=None, connect_ip=None):
        """mixed_app: instead of the shipped binary, the harness runs the same accept loop (Server::run) and pool with an
        application that fails on demand (target contains __panic / __panic_long / __panic_any / __err / __slow)"""
        self.root, self.threads, self.lane = root, threads, lane
        self.mixed_app = mixed_app
        self.binary = build.harness(lane) if mixed_app else build.binary(lane)
        self.dir = core.scratch("srv-")
        self.port = port or free_port()
        self.ip = ip
        self.connect_ip = connect_ip or ip   # e.g. a '::' listener reached by an IPv4 client: the peer is ::ffff:127.0.0.1
        self.out_path = os.path.join(self.dir, "stdout.log")
        self.err_path = os.path.join(self.dir, "stderr.log")
        self.strace_path = os.path.join(self.dir, "strace.log") if strace else None
        e = {k: v for k, v in os.environ.items() if not k.startswith("RWS_CONFIG_")}
        # symbolised backtraces of concurrent panics are serialised by std and take 0.1 - 1 s each: they would turn
        # "a worker is printing" into "a worker is stuck"; the 'panicked at' line itself is always printed
        e["RUST_BACKTRACE"] = "0"
        # a process environment is not always UTF-8 (a Latin-1 word left by a legacy locale): iterating it must not matter
        e.setdefault("VF_LEGACY_WORD", os.fsdecode(b"caf\xe9"))
        # virtual time: the process's clocks can be moved forward with advance_clock() (LD_PRELOAD shim)
        self.shift_path = None
        if virtual_time:
            so = build.timeshift()
            if so:
                self.shift_path = os.path.join(self.dir, "timeshift")
                open(self.shift_path, "w").write("0")
                e["LD_PRELOAD"] = so
                e["VF_TIMESHIFT_FILE"] = self.shift_path
        if trace:
            e["RWS_VERIF_TRACE"] = "1"
        if env:
            e.update(env)
        argv = [self.binary]
        if mixed_app:
            argv += ["srv", ip, str(self.port), str(threads)]
            use_default_args = False
        if use_default_args:
            argv += ["--ip=%s" % ip, "--port=%d" % self.port, "--thread-count=%d" % threads]
        argv += list(args or [])
        if strace:
            argv = ["strace", "-f", "-qq", "-o", self.strace_path, "-e",
                    "trace=open,openat,creat,unlink,unlinkat,rename,renameat,renameat2,mkdir,mkdirat,rmdir,link,linkat,symlink,symlinkat,truncate,ftruncate,chmod,fchmod,fchmodat,chown,fchown,lchown,fchownat,utime,utimes,utimensat,futimesat,mknod,mknodat,setxattr,lsetxattr,fsetxattr,removexattr,write,pwrite64,writev,fallocate,copy_file_range,sendfile"] + argv
        self.argv = argv
        self.out = open(self.out_path, "wb")
        self.err = open(self.err_path, "wb")
        pre = None
        if nofile:
            # a small descriptor limit: accept() and open() start failing with EMFILE under a burst of connections
            def pre():
                import resource
                resource.setrlimit(resource.RLIMIT_NOFILE, (nofile, nofile))
        self.proc = subprocess.Popen(argv, cwd=root, env=e, stdout=self.out, stderr=self.err, stdin=subprocess.DEVNULL, preexec_fn=pre)
        self.started = self._wait_ready()

    def _wait_ready(self, timeout=45.0):
        t0 = time.time()
        while time.time() - t0 < timeout:
            if self.proc.poll() is not None:
                return False
            try:
                txt = open(self.out_path, "rb").read()
            except OSError:
                txt = b""
            if b"Spawned " in txt and b"thread(s)" in txt:
                return True
            time.sleep(0.01)
        return False

    def advance_clock(self, seconds):
        """move every clock of the server process forward by `seconds` (cumulative); False when virtual time is unavailable"""
        if not self.shift_path:
            return False
        cur = int(open(self.shift_path).read().strip() or 0)
        tmp = self.shift_path + ".tmp"
        open(tmp, "w").write(str(cur + int(seconds)))
        os.replace(tmp, self.shift_path)
        time.sleep(0.02)   # the shim re-reads the file every 5 ms of real time
        return True

    def advance_clock_to(self, unix_seconds):
        """move the server's clocks forward to the given wall-clock time (never backwards); False when unavailable"""
        if not self.shift_path:
            return False
        cur = int(open(self.shift_path).read().strip() or 0)
        delta = int(unix_seconds - (time.time() + cur))
        if delta <= 0:
            return True
        return self.advance_clock(delta)

    # ---- observations
    def alive(self):
        return self.proc.poll() is None

    def pid(self):
        """pid of the rws process itself (child of strace when tracing)"""
        if not self.strace_path:
            return self.proc.pid
        try:
            kids = open("/proc/%d/task/%d/children" % (self.proc.pid, self.proc.pid)).read().split()
            return int(kids[0]) if kids else self.proc.pid
        except OSError:
            return self.proc.pid

    def census(self):
        """names of the live threads of the server process (workers are named "0".."N-1")"""
        names = []
        pid = self.pid()
        try:
            for t in os.listdir("/proc/%d/task" % pid):
                try:
                    names.append(open("/proc/%d/task/%s/comm" % (pid, t)).read().strip())
                except OSError:
                    pass
        except OSError:
            pass
        return names

    def workers_alive(self):
        """worker threads present in /proc.  A thread that ended stays ended, so a reading with fewer workers than
        expected is confirmed by two more readings (a listing of /proc/<pid>/task taken on a loaded machine was seen
        to miss a live thread once); the largest reading is returned."""
        best = []
        for attempt in range(3):
            names = self.census()
            cur = sorted(int(n) for n in names if n.isdigit() and int(n) < self.threads)
            if len(cur) > len(best):
                best = cur
            if len(best) >= self.threads or not self.alive():
                break
            time.sleep(0.05)
        return best

    def stdout_text(self):
        self.out.flush()
        return open(self.out_path, "rb").read().decode("utf-8", "replace")

    def stderr_text(self):
        self.err.flush()
        return open(self.err_path, "rb").read().decode("utf-8", "replace")

    def crash_lines(self):
        out = []
        for txt in (self.stderr_text(),):
            for ln in txt.splitlines():
                if "panicked at" in ln or "overflowed its stack" in ln or "fatal runtime error" in ln:
                    out.append(ln.strip()[:300])
        return out

    def hook_events(self):
        ev = []
        # a trace line is written with one write call, but it may start in the middle of another thread's panic message
        for m in re.finditer(r"VERIF-EVENT (\d+) (\w+) (\d+)\n", self.stderr_text()):
            ev.append((int(m.group(1)), m.group(2), int(m.group(3))))
        ev.sort()
        return ev

    # ---- client
    def connect(self, timeout=5.0):
        s = socket.socket(socket.AF_INET6 if ":" in self.connect_ip else socket.AF_INET)
        s.settimeout(timeout)
        s.connect((self.connect_ip, self.port))
        return s

    def request(self, data, timeout=10.0, half_close=False):
        """One connection, one send (the server reads once), read to EOF.
        Returns (bytes, end) with end in eof | reset | timeout | refused."""
        try:
            s = self.connect()
        except (ConnectionRefusedError, OSError) as e:
            return b"", "refused"
        s.settimeout(timeout)
        buf = b""
        end = "eof"
        try:
            if data:
                s.sendall(data)
            if half_close:
                s.shutdown(socket.SHUT_WR)
            while True:
                chunk = s.recv(65536)
                if not chunk:
                    break
                buf += chunk
        except ConnectionResetError:
            end = "reset"
        except BrokenPipeError:
            end = "reset"
        except socket.timeout:
            end = "timeout"
        except OSError:
            end = "reset"
        finally:
            try:
                s.close()
            except OSError:
                pass
        return buf, end

    def stop(self):
        rc = self.proc.poll()
        if rc is None:
            try:
                if self.strace_path:
                    # kill the traced server, strace exits with it
                    os.kill(self.pid(), signal.SIGKILL)
                self.proc.kill()
            except OSError:
                pass
            try:
                self.proc.wait(timeout=5)
            except subprocess.TimeoutExpired:
                pass
        self.out.close()
        self.err.close()
        return rc

    def cleanup(self):
        self.stop()
        import shutil
        shutil.rmtree(self.dir, ignore_errors=True)


def rst_close(sock):
    """close with RST instead of FIN"""
    try:
        sock.setsockopt(socket.SOL_SOCKET, socket.SO_LINGER, struct.pack("ii", 1, 0))
    finally:
        sock.close()


def simultaneous(srv, raws, settle=0.05):
    """Open one connection per request first (so that the workers are parked in read()), then let forked senders - spinning
    on the clock, not serialised by the interpreter lock - write all requests at the same instant; returns the responses.
    On a freshly started server these are the process's very first requests: whatever is built or read lazily on first
    use is built under contention."""
    n = len(raws)
    socks = []
    for _ in range(n):
        try:
            socks.append(srv.connect(timeout=10))
        except OSError:
            socks.append(None)
    time.sleep(settle)
    go = time.monotonic() + 0.05
    d = core.scratch("race-")
    pids = []
    for i in range(n):
        pid = os.fork()
        if pid == 0:
            try:
                buf = b""
                if socks[i] is not None:
                    while time.monotonic() < go:
                        pass
                    try:
                        socks[i].sendall(raws[i])
                        while True:
                            ch = socks[i].recv(65536)
                            if not ch:
                                break
                            buf += ch
                    except OSError:
                        pass
                with open(os.path.join(d, "r%d" % i), "wb") as fh:
                    fh.write(buf)
            finally:
                os._exit(0)
        pids.append(pid)
    for pid in pids:
        try:
            os.waitpid(pid, 0)
        except OSError:
            pass
    res = []
    for i in range(n):
        try:
            res.append(open(os.path.join(d, "r%d" % i), "rb").read())
        except OSError:
            res.append(b"")
    import shutil
    shutil.rmtree(d, ignore_errors=True)
    for s in socks:
        try:
            if s is not None:
                s.close()
        except OSError:
            pass
    return res

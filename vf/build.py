"""Build lanes. Everything is rebuilt (incrementally, by cargo) from $VERIF_REPO's working tree."""
import os, re, shutil, subprocess, sys, time, hashlib, fcntl

VERIF = os.path.dirname(os.path.dirname(os.path.abspath(__file__)))
REPO = os.environ.get("VERIF_REPO", "/repo")
CACHE = os.environ.get("VERIF_CACHE") or os.path.join(VERIF, ".cache")
OUT = os.environ.get("VERIF_OUT") or VERIF   # where evidence/ and replays/ are written
HARNESS = os.path.join(VERIF, "harness")

BASE_ENV = {"CARGO_NET_OFFLINE": "true", "CARGO_TERM_COLOR": "never"}

LANES = {
    # lane: (toolchain args, profile args, RUSTFLAGS, extra cargo args)
    "rel": ([], ["--release"], "--cfg rws_verif -Awarnings", []),
    "chk": ([], ["--release"], "--cfg rws_verif -Awarnings -C overflow-checks=on -C debug-assertions=on", []),
    "tsan": (["+nightly"], ["--release"], "--cfg rws_verif -Awarnings -Zsanitizer=thread",
             ["-Zbuild-std", "--target", "x86_64-unknown-linux-gnu"]),
}


class BuildError(Exception):
    pass


def _run(cmd, env=None, cwd=None, timeout=1800):
    e = dict(os.environ)
    e.update(BASE_ENV)
    if env:
        e.update(env)
    p = subprocess.run(cmd, cwd=cwd, env=e, stdout=subprocess.PIPE, stderr=subprocess.STDOUT, timeout=timeout)
    return p.returncode, p.stdout.decode("utf-8", "replace")


def _lock(name):
    os.makedirs(CACHE, exist_ok=True)
    f = open(os.path.join(CACHE, name + ".lock"), "w")
    fcntl.flock(f, fcntl.LOCK_EX)
    return f


def gen_rwslib():
    """Generate .cache/rwslib/Cargo.toml: the repository's package with [lib] path = <repo>/src/main.rs."""
    d = os.path.join(CACHE, "rwslib")
    os.makedirs(d, exist_ok=True)
    src = open(os.path.join(REPO, "Cargo.toml")).read()
    # keep [package] and [dependencies] verbatim; drop [[bin]]/[lib] if any ever appear
    out, skip = [], False
    for line in src.splitlines():
        if re.match(r"\s*\[\[?(bin|lib)\]?\]", line):
            skip = True
            continue
        if re.match(r"\s*\[", line):
            skip = False
        if not skip:
            out.append(line)
    text = "\n".join(out)
    if "rust-version" not in text:
        text = text.replace("[package]", '[package]\nrust-version = "1.60"', 1)
    text += '\n\n[lib]\nname = "rws"\npath = "%s/src/main.rs"\n' % REPO
    p = os.path.join(d, "Cargo.toml")
    if not os.path.exists(p) or open(p).read() != text:
        open(p, "w").write(text)
    return d


def _write_if_changed(path, data):
    try:
        if open(path, "rb").read() == data:
            return
    except OSError:
        pass
    os.makedirs(os.path.dirname(path), exist_ok=True)
    with open(path, "wb") as f:
        f.write(data)


def sync_harness():
    """Mirror /verif/harness into the cache with a manifest that points at this cache's generated rwslib
    (so that several caches - one per scratch copy of the repository - can build side by side)."""
    dst = os.path.join(CACHE, "harness")
    for sub in ("src", os.path.join("fuzz", "fuzz_targets")):
        for dp, dns, fns in os.walk(os.path.join(HARNESS, sub)):
            for n in fns:
                src = os.path.join(dp, n)
                rel = os.path.relpath(src, HARNESS)
                _write_if_changed(os.path.join(dst, rel), open(src, "rb").read())
    ftoml = open(os.path.join(HARNESS, "fuzz", "Cargo.toml")).read().replace('path = "../../.cache/rwslib"', 'path = "%s"' % os.path.join(CACHE, "rwslib"))
    _write_if_changed(os.path.join(dst, "fuzz", "Cargo.toml"), ftoml.encode())
    if os.path.exists(os.path.join(REPO, "Cargo.lock")) and not os.path.exists(os.path.join(dst, "fuzz", "Cargo.lock")):
        pass
    toml = open(os.path.join(HARNESS, "Cargo.toml")).read().replace('path = "../.cache/rwslib"', 'path = "%s"' % os.path.join(CACHE, "rwslib"))
    _write_if_changed(os.path.join(dst, "Cargo.toml"), toml.encode())
    lock = os.path.join(REPO, "Cargo.lock")
    if os.path.exists(lock) and not os.path.exists(os.path.join(dst, "Cargo.lock")):
        shutil.copy(lock, os.path.join(dst, "Cargo.lock"))
    return dst


def harness(lane="rel"):
    """Build the executor `vh` for a lane; returns path to the binary."""
    tool, prof, flags, extra = LANES[lane]
    with _lock("build-" + lane):
        gen_rwslib()
        hdir = sync_harness()
        tdir = os.path.join(CACHE, "target", lane)
        cmd = ["cargo"] + tool + ["build", "--offline", "--bin", "vh"] + prof + extra + ["--target-dir", tdir]
        t0 = time.time()
        rc, out = _run(cmd, env={"RUSTFLAGS": flags}, cwd=hdir)
        if rc != 0:
            raise BuildError("harness build failed (lane %s):\n%s" % (lane, out[-6000:]))
        sub = "x86_64-unknown-linux-gnu/release" if "--target" in extra else "release"
        return os.path.join(tdir, sub, "vh")


def binary(lane="rel"):
    """Build the shipped rws binary from the repository (hooks on); returns path."""
    flags = {"rel": "--cfg rws_verif -Awarnings",
             "chk": "--cfg rws_verif -Awarnings -C overflow-checks=on -C debug-assertions=on"}[lane]
    with _lock("bin-" + lane):
        tdir = os.path.join(CACHE, "target", "bin-" + lane)
        cmd = ["cargo", "build", "--offline", "--release", "--target-dir", tdir]
        rc, out = _run(cmd, env={"RUSTFLAGS": flags}, cwd=REPO)
        if rc != 0:
            raise BuildError("rws binary build failed (lane %s):\n%s" % (lane, out[-6000:]))
        return os.path.join(tdir, "release", "rws")


def timeshift():
    """Build the LD_PRELOAD clock shim (harness/timeshift.c); returns the path of the shared object or None when no C
    compiler is available (the callers then skip their virtual-time phase and say so)."""
    src = os.path.join(VERIF, "harness", "timeshift.c")
    so = os.path.join(CACHE, "timeshift.so")
    with _lock("timeshift"):
        if os.path.exists(so) and os.path.getmtime(so) >= os.path.getmtime(src):
            return so
        for cc in ("cc", "gcc", "clang"):
            try:
                rc, out = _run([cc, "-shared", "-fPIC", "-O2", "-o", so, src, "-ldl"])
            except OSError:
                continue
            if rc == 0:
                return so
    return None


def fuzz_build():
    """cargo +nightly fuzz build (ASan + coverage instrumentation); returns (path to the fuzz binary, harness dir)"""
    with _lock("build-fuzz"):
        gen_rwslib()
        hdir = sync_harness()
        tdir = os.path.join(CACHE, "target", "fuzz")
        cmd = ["cargo", "+nightly", "fuzz", "build", "parsers", "--target-dir", tdir]
        rc, out = _run(cmd, env={"RUSTFLAGS": "--cfg rws_verif -Awarnings", "CARGO_NET_OFFLINE": "true"}, cwd=hdir, timeout=3600)
        if rc != 0:
            raise BuildError("fuzz build failed:\n%s" % out[-4000:])
        return os.path.join(tdir, "x86_64-unknown-linux-gnu", "release", "parsers"), hdir


def miri_cmd():
    """argv prefix + env for running the miri_pool bin under Miri."""
    gen_rwslib()
    hdir = sync_harness()
    tdir = os.path.join(CACHE, "target", "miri")
    cmd = ["cargo", "+nightly", "miri", "run", "--offline", "--bin", "miri_pool", "--target-dir", tdir, "--"]
    return cmd, hdir


if __name__ == "__main__":
    for lane in sys.argv[1:] or ["rel"]:
        t0 = time.time()
        if lane.startswith("bin-"):
            print(binary(lane[4:]), "%.1fs" % (time.time() - t0))
        else:
            print(harness(lane), "%.1fs" % (time.time() - t0))

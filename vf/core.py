"""Shared plumbing: PRNG, case codec, probe client with crash journal, parallel sharding."""
import os, sys, subprocess, tempfile, time, json, hashlib, shutil, signal
from concurrent.futures import ThreadPoolExecutor
from . import build

MASK = (1 << 64) - 1


class Rng:
    """SplitMix64: stable across Python versions (random.Random is not used for anything that must replay)."""

    def __init__(self, *seed_parts):
        h = hashlib.sha256("/".join(str(p) for p in seed_parts).encode()).digest()
        self.s = int.from_bytes(h[:8], "big")

    def u64(self):
        self.s = (self.s + 0x9E3779B97F4A7C15) & MASK
        z = self.s
        z = ((z ^ (z >> 30)) * 0xBF58476D1CE4E5B9) & MASK
        z = ((z ^ (z >> 27)) * 0x94D049BB133111EB) & MASK
        return z ^ (z >> 31)

    def below(self, n):
        return self.u64() % n if n > 0 else 0

    def range(self, a, b):
        """inclusive"""
        return a + self.below(b - a + 1)

    def chance(self, num, den):
        return self.below(den) < num

    def choice(self, seq):
        return seq[self.below(len(seq))]

    def sample(self, seq, k):
        l = list(seq)
        self.shuffle(l)
        return l[:k]

    def shuffle(self, l):
        for i in range(len(l) - 1, 0, -1):
            j = self.below(i + 1)
            l[i], l[j] = l[j], l[i]

    def bytes(self, n):
        if n <= 64:
            out = bytearray()
            while len(out) < n:
                out += self.u64().to_bytes(8, "little")
            return bytes(out[:n])
        return hashlib.shake_256(self.u64().to_bytes(8, "little")).digest(n)

    def fork(self, *parts):
        return Rng(self.u64(), *parts)


def seed():
    try:
        return int(os.environ.get("VERIF_SEED", "0"))
    except ValueError:
        return 0


def hx(b):
    if isinstance(b, str):
        b = b.encode("utf-8", "surrogateescape")
    elif isinstance(b, int):
        b = str(b).encode()
    return b.hex() if b else "-"


def unhx(s):
    return b"" if s == "-" else bytes.fromhex(s)


class Case:
    __slots__ = ("id", "op", "fields", "meta")

    def __init__(self, cid, op, fields, meta=None):
        self.id, self.op, self.fields, self.meta = str(cid), op, fields, meta or {}

    def line(self):
        return "\t".join([self.id, self.op] + [hx(f) for f in self.fields])


class Obs:
    """outcome: ok | err | panic | died | timeout | missing"""
    __slots__ = ("id", "outcome", "ns", "fields", "info")

    def __init__(self, cid, outcome, ns=0, fields=None, info=None):
        self.id, self.outcome, self.ns, self.fields, self.info = cid, outcome, ns, fields or [], info or {}

    def s(self, i):
        return self.fields[i].decode("utf-8", "replace") if i < len(self.fields) else ""

    def n(self, i):
        try:
            return int(self.s(i))
        except ValueError:
            return 0

    @property
    def err(self):
        return self.s(0) if self.outcome == "err" else ""

    @property
    def panic_msg(self):
        return self.s(0) if self.outcome == "panic" else ""

    @property
    def panic_file(self):
        return self.s(1) if self.outcome == "panic" else ""

    def summary(self):
        if self.outcome == "panic":
            return "panic: %s @ %s" % (self.panic_msg[:160], self.panic_file)
        if self.outcome == "err":
            return "err: %s" % self.err[:160]
        if self.outcome in ("died", "timeout"):
            return "%s: %s" % (self.outcome, self.info)
        return "ok"


def _parse_obs_line(line):
    p = line.rstrip("\n").split("\t")
    if len(p) < 3:
        return None
    try:
        return Obs(p[0], p[1], int(p[2]), [unhx(x) for x in p[3:]])
    except ValueError:
        return None


def scratch(prefix="vf-"):
    base = os.environ.get("VERIF_SCRATCH") or os.path.join(build.CACHE, "scratch")
    os.makedirs(base, exist_ok=True)
    return tempfile.mkdtemp(prefix=prefix, dir=base)


def run_shard(vh, cases, cwd=None, env=None, per_case_timeout=20.0, keep_stdout=False, skip_after=2, bad_ops=None):
    """Run cases in one child (restarting after a death); returns {id: Obs}. Deaths are attributed via the journal."""
    d = scratch("probe-")
    results = {}
    remaining = list(cases)
    e = dict(os.environ)
    for k in list(e):
        if k.startswith("RWS_CONFIG_"):
            del e[k]
    if env:
        e.update(env)
    attempt = 0
    bad_ops = {} if bad_ops is None else bad_ops
    try:
        while remaining:
            attempt += 1
            cf, of, jf = (os.path.join(d, "%s%d" % (n, attempt)) for n in ("cases", "obs", "journal"))
            flagged = set(op for (op, _), n in bad_ops.items() if n >= skip_after)
            if flagged:
                for c in remaining:
                    if c.op in flagged and c.id not in results:
                        results[c.id] = Obs(c.id, "skipped", info={"reason": "entry point already hung / aborted repeatedly"})
                remaining = [c for c in remaining if c.id not in results]
                if not remaining:
                    break
            with open(cf, "w") as f:
                f.write("\n".join(c.line() for c in remaining) + "\n")
            open(of, "w").close()
            open(jf, "w").close()
            so = open(os.path.join(d, "stdout%d" % attempt), "wb") if keep_stdout else subprocess.DEVNULL
            se = open(os.path.join(d, "stderr%d" % attempt), "wb")
            one_cpu = (lambda: os.sched_setaffinity(0, {sorted(os.sched_getaffinity(0))[0]})) if e.get("VF_ONE_CPU") else None   # a process that sees a single CPU
            p = subprocess.Popen([vh, "probe", cf, of, jf], cwd=cwd, env=e, stdout=so, stderr=se, stdin=subprocess.DEVNULL, preexec_fn=one_cpu)
            # watchdog: no growth of the obs file for per_case_timeout seconds => the journalled case hangs
            last_size, last_t, hung = -1, time.time(), False
            while True:
                try:
                    p.wait(timeout=0.05 if len(remaining) < 50 else 0.25)
                    break
                except subprocess.TimeoutExpired:
                    sz = os.path.getsize(of) + os.path.getsize(jf)
                    if sz != last_size:
                        last_size, last_t = sz, time.time()
                    elif time.time() - last_t > per_case_timeout:
                        hung = True
                        p.kill()
                        p.wait()
                        break
            se.close()
            done = {}
            with open(of) as f:
                for line in f:
                    o = _parse_obs_line(line)
                    if o:
                        done[o.id] = o
            results.update(done)
            journal = [x.strip() for x in open(jf) if x.strip()]
            if p.returncode == 0 and not hung:
                for c in remaining:
                    if c.id not in results:
                        results[c.id] = Obs(c.id, "missing")
                break
            # died or hung on the last journalled case without an observation
            victim = None
            for cid in reversed(journal):
                if cid not in done:
                    victim = cid
                    break
            stderr_tail = open(os.path.join(d, "stderr%d" % attempt), "rb").read()[-600:].decode("utf-8", "replace")
            if victim is None:
                # died outside any case (start-up) - give up on the rest as missing
                for c in remaining:
                    if c.id not in results:
                        results[c.id] = Obs(c.id, "missing", info={"rc": p.returncode, "stderr": stderr_tail})
                break
            vcase = next((c for c in remaining if c.id == victim), None)
            if vcase is not None:
                key = (vcase.op, "timeout" if hung else "died")
                bad_ops[key] = bad_ops.get(key, 0) + 1
                if bad_ops[key] >= skip_after:
                    # the same entry point keeps hanging / aborting: it is reported; do not spend the budget re-observing it
                    for c in remaining:
                        if c.op == vcase.op and c.id not in results and c.id != victim:
                            results[c.id] = Obs(c.id, "skipped", info={"reason": "entry point already %s %d times in this shard" % (key[1], bad_ops[key])})
            if hung:
                results[victim] = Obs(victim, "timeout", info={"no_progress_s": per_case_timeout})
            else:
                rc = p.returncode
                sig = -rc if rc < 0 else None
                results[victim] = Obs(victim, "died", info={"rc": rc, "signal": signal.Signals(sig).name if sig else None, "stderr": stderr_tail})
            idx = next((i for i, c in enumerate(remaining) if c.id == victim), None)
            remaining = [c for i, c in enumerate(remaining) if c.id not in results] if idx is None else [c for c in remaining[idx + 1:] if c.id not in results]
            if attempt > 400:
                for c in remaining:
                    results[c.id] = Obs(c.id, "missing", info={"reason": "too many restarts"})
                break
    finally:
        shutil.rmtree(d, ignore_errors=True)
    return results


# inputs every parser of the family rejects: run between the cases of a round-trip campaign (same process, same thread),
# so that state left behind by a rejected call - a buffer, a cache, a thread-local - shows up as a wrong round trip
POISON = {
    "json": [("json.parse.split", [b"[12x]"]), ("json.parse.l_i64", [b"[5, 6y]"]), ("json.parse.l_str", [b'["caf\xc3\xa9", "b']), ("json.parse.props", [b'{"a": tru']),
             ("json.parse.l_f64", [b"[1.2.3]"]), ("json.parse.split", [b'[{"a": [1, 2}']), ("json.parse.l_obj", [b'[{"s": "x"}, {']), ("json.parse.struct", [b'{"s": "unterminated']),
             ("json.parse.l_i8", [b"[--1]"]), ("json.parse.props", [b'{"k": [1, 2, ']), ("json.parse.l_bool", [b"[true, fals"])],
    "http": [("req.parse", [b"BOGUS /left-over-target?left=over HTTP/1.1\r\nX-Left: over\r\n\r\nleft-over-body"]), ("req.parse", [b"GET / HTTP/9.9\r\nRange: bytes=5-6\r\n\r\n"]),
             ("req.parse", [b"\xff\xfe GET"]), ("resp.parse", [b"HTTP/1.1 999 Nope\r\nX-Left: over\r\n\r\nleft-over"]), ("resp.parse", [b"HTTP/1.1 200 OK\r\nContent-Type: multipart/byteranges; boundary=LEFT\r\n\r\n--LEFT\r\nContent-Type: a/b\r\n"]),
             ("resp._parse", [b"HTTP/1.1 200 Wrong Phrase\r\n\r\nx"]), ("hdr.parse", [b"no separator here"]), ("range.parse", [b"100", b"9-x"]), ("range.crhv", [b"bytes x-y/z"])],
    "multipart": [("mp.parse", [b"LEFT", b"--LEFT\r\nContent-Disposition: form-data; name=\"left\"\r\n\r\nleft-over value"]), ("mp.parse", [b"b", b"no boundary at all"]),
                  ("mp.parse", [b"b", b"--b\r\n\r\nno headers\r\n--b--\r\n"]), ("mp.boundary", [b"multipart/form-data"]), ("cd.parse", [b"form-data; name=\"left"])],
    "form": [("form.parse", [b"left=%zz&over=%"]), ("query.parse", [b"%&=&&=%E4"]), ("url.decode", [b"%E4%B8"]), ("form.parse", [b"\xff=\xfe"]), ("req.uri", [b"/x?left=over&%"])],
    "b64": [("b64.decode", [b"@@@@"]), ("b64.decode", [b"QQ="]), ("b64.decode", ["caf\u00e9".encode()]), ("b64.decode", [b"QUJD*"])],
}


def run_cases(cases, lane="rel", cwd=None, env=None, jobs=None, per_case_timeout=20.0, shard_size=None, bad_ops=None, poison=None, poison_every=5):
    """Shard cases over up to 16 children. Returns {id: Obs}.  poison: name(s) of POISON families whose rejected inputs are
    interleaved with the cases (one after every `poison_every` cases); their observations are returned under ids '~p...'."""
    if not cases:
        return {}
    vh = build.harness(lane)
    jobs = jobs or min(16, os.cpu_count() or 4)
    if shard_size is None:
        shard_size = max(1, min(2000, (len(cases) + jobs - 1) // jobs))
    nsh = max(1, (len(cases) + shard_size - 1) // shard_size)
    shards = [cases[i::nsh] for i in range(nsh)]   # interleaved, so one slow entry point does not pile up in one shard
    if poison:
        fam = []
        for name in ([poison] if isinstance(poison, str) else poison):
            fam += POISON[name]
        mixed = []
        for si, sh in enumerate(shards):
            m = []
            for j, cs in enumerate(sh):
                if j % poison_every == 0:
                    op, fields = fam[(si + j // poison_every) % len(fam)]
                    m.append(Case("~p%d-%d" % (si, j), op, list(fields)))
                m.append(cs)
            mixed.append(m)
        shards = mixed
    out = {}
    bad_ops = {} if bad_ops is None else bad_ops
    with ThreadPoolExecutor(max_workers=jobs) as ex:
        for r in ex.map(lambda s: run_shard(vh, s, cwd=cwd, env=env, per_case_timeout=per_case_timeout, bad_ops=bad_ops), shards):
            out.update(r)
    return out


def cold_race(cases, trials=40, threads=8, lane="rel", cwd=None, env=None, jobs=8):
    """Concurrent FIRST use: every trial is a fresh process in which `threads` threads, released together, each execute
    all `cases` once.  Returns a list of trials, each {thread: {case id: (outcome, [fields])}}.  What a lazily built
    table, a 'read once' cache or a first-call initialiser does under contention shows here and nowhere else."""
    vh = build.harness(lane)
    d = scratch("cold-")
    cp = os.path.join(d, "cases")
    with open(cp, "w") as f:
        for cs in cases:
            f.write(cs.line() + "\n")
    e = dict(os.environ)
    if env:
        e.update(env)

    def one(i):
        op = os.path.join(d, "out%d" % i)
        try:
            subprocess.run([vh, "coldrace", cp, op, str(threads)], stdout=subprocess.DEVNULL, stderr=subprocess.DEVNULL, timeout=120, cwd=cwd or d, env=e)
        except subprocess.TimeoutExpired:
            return None
        res = {}
        try:
            for ln in open(op):
                p = ln.rstrip("\n").split("\t")
                if len(p) < 3:
                    continue
                res.setdefault(p[0], {})[p[1]] = (p[2], [bytes.fromhex(x) if x != "-" else b"" for x in p[3:]])
        except OSError:
            return None
        return res
    try:
        with ThreadPoolExecutor(max_workers=jobs) as ex:
            return list(ex.map(one, range(trials)))
    finally:
        shutil.rmtree(d, ignore_errors=True)


def cold_race_check(c, prop, cases, trials=40, threads=8, env=None, cwd=None, normalise=None, skip_fields=()):
    """monitor built on cold_race: what each thread of each fresh process gets must equal what a single-threaded run
    gets for the same case (normalise(op, outcome, fields) -> comparable value; default: outcome and all fields)"""
    c.need("cold concurrent first use")
    ref = run_cases(cases, cwd=cwd, env=env)
    norm = normalise or (lambda op, outcome, fields: (outcome, tuple(f for i, f in enumerate(fields) if i not in skip_fields)))
    want = {}
    for cs in cases:
        o = ref.get(cs.id)
        if o is None or o.outcome not in ("ok", "err"):
            continue
        want[cs.id] = norm(cs.op, o.outcome, list(o.fields) if o.outcome == "ok" else [o.err.encode("utf-8", "replace")])
    res = cold_race([cs for cs in cases if cs.id in want], trials=trials, threads=threads, env=env, cwd=cwd)
    ops = {cs.id: cs.op for cs in cases}
    for ti, tr in enumerate(res):
        if tr is None:
            c.inconc("cold-race process did not finish")
            continue
        for th, r in tr.items():
            for cid, w in want.items():
                c.ev()
                g = r.get(cid)
                if g is None:
                    c.inconc("cold-race result missing")
                    continue
                c.seen("cold concurrent first use")
                got = norm(ops[cid], g[0], g[1])
                if got != w:
                    c.violation("%s:cold-concurrent-first-use:%s" % (prop, ops[cid]), "in a fresh process with %d threads starting at once, thread %s got a result for %s that differs from the single-threaded one: %r vs %r" % (threads, th, ops[cid], repr(got)[:200], repr(w)[:200]),
                                {"op": ops[cid], "trial": ti, "thread": th})
        c.cls("cold-race", ti % 4)

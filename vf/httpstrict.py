"""Independent strict HTTP/1.1 response parser + multipart/byteranges reader (oracle side, stdlib only)."""
import re

# IANA HTTP status code registry (code -> reason phrase), written here, not derived from the repository
IANA = {
    100: "Continue", 101: "Switching Protocols", 102: "Processing", 103: "Early Hints",
    200: "OK", 201: "Created", 202: "Accepted", 203: "Non-Authoritative Information", 204: "No Content",
    205: "Reset Content", 206: "Partial Content", 207: "Multi-Status", 208: "Already Reported", 226: "IM Used",
    300: "Multiple Choices", 301: "Moved Permanently", 302: "Found", 303: "See Other", 304: "Not Modified",
    305: "Use Proxy", 307: "Temporary Redirect", 308: "Permanent Redirect",
    400: "Bad Request", 401: "Unauthorized", 402: "Payment Required", 403: "Forbidden", 404: "Not Found",
    405: "Method Not Allowed", 406: "Not Acceptable", 407: "Proxy Authentication Required", 408: "Request Timeout",
    409: "Conflict", 410: "Gone", 411: "Length Required", 412: "Precondition Failed", 413: "Content Too Large",
    414: "URI Too Long", 415: "Unsupported Media Type", 416: "Range Not Satisfiable", 417: "Expectation Failed",
    418: "I'm a teapot", 421: "Misdirected Request", 422: "Unprocessable Content", 423: "Locked", 424: "Failed Dependency",
    425: "Too Early", 426: "Upgrade Required", 428: "Precondition Required", 429: "Too Many Requests",
    431: "Request Header Fields Too Large", 451: "Unavailable For Legal Reasons",
    500: "Internal Server Error", 501: "Not Implemented", 502: "Bad Gateway", 503: "Service Unavailable",
    504: "Gateway Timeout", 505: "HTTP Version Not Supported", 506: "Variant Also Negotiates", 507: "Insufficient Storage",
    508: "Loop Detected", 510: "Not Extended", 511: "Network Authentication Required",
}
# historical spellings of the same registrations that remain acceptable
ALT = {413: {"Payload Too Large", "Request Entity Too Large"}, 414: {"URI Too Long", "Request-URI Too Long"},
       422: {"Unprocessable Entity"}, 416: {"Requested Range Not Satisfiable"}, 418: {"I'm a teapot", "I'm a Teapot"},
       408: {"Request Timeout", "Request Time-out"}, 504: {"Gateway Timeout", "Gateway Time-out"}}

TOKEN = re.compile(rb"^[!#$%&'*+\-.^_`|~0-9A-Za-z]+$")
FRAMING = ("content-length", "content-type", "content-range", "transfer-encoding")


class Resp:
    def __init__(self):
        self.version = self.reason = ""
        self.status = 0
        self.headers = []  # (name str, value str) in order
        self.body = b""
        self.errors = []   # strict-grammar violations
        self.raw_head = b""

    def get_all(self, name):
        n = name.lower()
        return [v for (k, v) in self.headers if k.lower() == n]

    def get(self, name):
        l = self.get_all(name)
        return l[0] if l else None

    def names(self):
        return sorted(k.lower() for k, _ in self.headers)


def parse(raw, head_request=False, bodiless_ok=False):
    """Parse bytes as exactly one response. Errors are collected in .errors (empty list = well-formed)."""
    r = Resp()
    if not raw:
        r.errors.append("empty: no bytes at all")
        return r
    end = raw.find(b"\r\n\r\n")
    if end < 0:
        r.errors.append("no blank line (CRLF CRLF) terminating the header block")
        return r
    head, body = raw[:end], raw[end + 4:]
    r.raw_head = head
    r.body = body
    lines = head.split(b"\r\n")
    m = re.match(rb"^(HTTP/1\.[01]) ([0-9]{3}) ([^\r\n]*)$", lines[0])
    if not m:
        r.errors.append("status line malformed: %r" % lines[0][:80])
        return r
    r.version, r.status, r.reason = m.group(1).decode(), int(m.group(2)), m.group(3).decode("utf-8", "replace")
    if r.status not in IANA:
        r.errors.append("status code %d is not registered" % r.status)
    elif r.reason != IANA[r.status] and r.reason not in ALT.get(r.status, ()):
        r.errors.append("reason phrase %r does not match status %d (%r)" % (r.reason, r.status, IANA[r.status]))
    for ln in lines[1:]:
        if b"\r" in ln or b"\n" in ln:
            r.errors.append("bare CR or LF inside a header line: %r" % ln[:80])
        i = ln.find(b":")
        if i <= 0:
            r.errors.append("header line without 'name:' : %r" % ln[:80])
            continue
        name, value = ln[:i], ln[i + 1:]
        if not TOKEN.match(name):
            r.errors.append("header name is not a token: %r" % name[:60])
        r.headers.append((name.decode("latin-1"), value.strip(b" \t").decode("utf-8", "replace")))
    for fh in FRAMING:
        if len(r.get_all(fh)) > 1:
            r.errors.append("framing header %s appears %d times" % (fh, len(r.get_all(fh))))
    cl = r.get("content-length")
    if cl is not None:
        if not re.match(r"^[0-9]+$", cl):
            r.errors.append("Content-Length is not a decimal number: %r" % cl)
        elif not head_request and int(cl) != len(body):
            r.errors.append("Content-Length %s != %d body bytes" % (cl, len(body)))
    if (head_request or bodiless_ok) and len(body) != 0 and head_request:
        r.errors.append("response to HEAD/OPTIONS carries %d body bytes" % len(body))
    return r


class Part:
    def __init__(self):
        self.headers = []
        self.body = b""
        self.start = self.end = self.size = None
        self.errors = []

    def get(self, name):
        for k, v in self.headers:
            if k.lower() == name.lower():
                return v
        return None


CR_RE = re.compile(r"^bytes (\d+)-(\d+)/(\d+|\*)$")


def parse_content_range(v):
    m = CR_RE.match(v.strip()) if v is not None else None
    if not m:
        return None
    return int(m.group(1)), int(m.group(2)), (None if m.group(3) == "*" else int(m.group(3)))


def multipart_byteranges(body, content_type):
    """Returns (parts, errors). Part bodies are sliced by the declared Content-Range length first
    (inclusive end); if that does not land on a delimiter, delimiter scanning explains the mismatch.
    The final delimiter is accepted with or without the closing '--'."""
    errors, parts = [], []
    m = re.search(r'boundary="?([^";]+)"?', content_type or "")
    if not m:
        return parts, ["multipart content type without boundary parameter: %r" % content_type]
    delim = b"--" + m.group(1).encode()
    pos = 0
    if not body.startswith(delim):
        return parts, ["multipart body does not start with the delimiter"]
    while True:
        if not body.startswith(delim, pos):
            errors.append("expected delimiter at offset %d" % pos)
            break
        pos += len(delim)
        rest = body[pos:]
        if rest in (b"", b"--", b"--\r\n", b"\r\n"):
            break  # final delimiter
        if not rest.startswith(b"\r\n"):
            errors.append("delimiter not followed by CRLF at offset %d" % pos)
            break
        pos += 2
        hend = body.find(b"\r\n\r\n", pos)
        if hend < 0:
            errors.append("part without blank line after its headers at offset %d" % pos)
            break
        p = Part()
        for ln in body[pos:hend].split(b"\r\n"):
            i = ln.find(b":")
            if i <= 0:
                p.errors.append("part header line malformed: %r" % ln[:60])
                continue
            p.headers.append((ln[:i].decode("latin-1"), ln[i + 1:].strip().decode("utf-8", "replace")))
        pos = hend + 4
        cr = parse_content_range(p.get("content-range"))
        sliced = False
        if cr:
            p.start, p.end, p.size = cr
            for n in (p.end - p.start + 1, p.end - p.start):  # inclusive reading first, exclusive as explanation
                if n >= 0 and body.startswith(b"\r\n" + delim, pos + n):
                    p.body = body[pos:pos + n]
                    if n != p.end - p.start + 1:
                        p.errors.append("part carries %d bytes but Content-Range %d-%d announces %d" % (n, p.start, p.end, p.end - p.start + 1))
                    pos = pos + n + 2
                    sliced = True
                    break
        else:
            p.errors.append("part without parsable Content-Range: %r" % p.get("content-range"))
        if not sliced:
            nxt = body.find(b"\r\n" + delim, pos)
            if nxt < 0:
                p.errors.append("no closing delimiter after part body")
                p.body = body[pos:]
                parts.append(p)
                break
            p.body = body[pos:nxt]
            if cr:
                p.errors.append("part carries %d bytes but Content-Range %d-%d announces %d" % (len(p.body), p.start, p.end, p.end - p.start + 1))
            pos = nxt + 2
        parts.append(p)
    return parts, errors


def _selftest():
    ok = parse(b"HTTP/1.1 200 OK\r\nContent-Length: 2\r\nX: y\r\n\r\nhi")
    assert ok.errors == [], ok.errors
    assert parse(b"HTTP/1.1 200 Okay\r\n\r\n").errors
    assert parse(b"HTTP/1.1 299 OK\r\n\r\n").errors
    assert parse(b"HTTP/1.1 200 OK\r\nContent-Length: 3\r\n\r\nhi").errors
    assert parse(b"HTTP/1.1 200 OK\r\nContent-Length: 2\r\nContent-Length: 2\r\n\r\nhi").errors
    assert parse(b"HTTP/1.1 200 OK\r\nBad Header: x\r\n\r\n").errors
    assert parse(b"HTTP/1.1 200 OK\r\nA: b\rc\r\n\r\n").errors
    assert parse(b"HTTP/1.1 200 OK\r\nA: b\r\n").errors
    assert parse(b"HTTP/1.1 200 OK\r\nContent-Length: 5\r\n\r\n", head_request=True).errors == []
    assert parse(b"HTTP/1.1 200 OK\r\n\r\nx", head_request=True).errors
    b = (b"--S\r\nContent-Type: text/plain\r\nContent-Range: bytes 0-1/10\r\n\r\nab\r\n"
         b"--S\r\nContent-Type: text/plain\r\nContent-Range: bytes 4-6/10\r\n\r\n\r\n-\r\n--S")
    ps, er = multipart_byteranges(b, "multipart/byteranges; boundary=S")
    assert er == [] and len(ps) == 2 and ps[0].body == b"ab" and ps[1].body == b"\r\n-" and not ps[1].errors, (er, [(p.body, p.errors) for p in ps])
    ps, er = multipart_byteranges(b + b"--\r\n", "multipart/byteranges; boundary=S")
    assert er == [] and len(ps) == 2
    b2 = b"--S\r\nContent-Type: t/p\r\nContent-Range: bytes 2-11/11\r\n\r\ncdefghijk\r\n--S"
    ps, er = multipart_byteranges(b2, "multipart/byteranges; boundary=S")
    assert ps[0].body == b"cdefghijk" and ps[0].errors, ps[0].errors
    return True


if __name__ == "__main__":
    print("httpstrict selftest", _selftest())

"""Small reference models shared by several properties."""
import re
from . import httpstrict

METHODS = {"GET", "HEAD", "POST", "PUT", "DELETE", "CONNECT", "OPTIONS", "TRACE", "PATCH"}
VERSIONS = {"HTTP/0.9", "HTTP/1.0", "HTTP/1.1", "HTTP/2.0"}


def request_line(raw, bufsize=10000):
    """Classify the request line the way the property states it.
    returns (klass, method, target, version) with klass in
      'wellformed'  known method, a target, supported version, valid UTF-8 line
      'malformed'   incomplete line / unknown method / unknown version / not UTF-8   (must be answered >= 400)
      'unspecified' corners the property does not speak about (extra spaces, tabs, lower case, NUL padding, ...)
    """
    seen = raw[:bufsize]
    if b"\n" not in seen:
        # no line terminator arrived: the server sees the line glued to the zero padding of its buffer
        try:
            seen.decode("utf-8")
        except UnicodeDecodeError:
            return "malformed", None, None, None
        return "unspecified", (seen.split(b" ", 1)[0].decode("latin-1") if b" " in seen[:12] else None), None, None
    line = seen.split(b"\n", 1)[0]
    try:
        text = line.decode("utf-8")
    except UnicodeDecodeError:
        return "malformed", None, None, None
    stripped = text.strip()
    if "\x00" in stripped:
        # a short read leaves NUL padding glued to the line: the server sees a different line than the client sent
        return "unspecified", None, None, None
    parts = stripped.split(" ")
    if len(parts) < 3:
        return "malformed", None, None, None
    if len(parts) > 3 or "" in parts or "\t" in stripped:
        return "unspecified", None, None, None
    m, t, v = parts
    if m.upper() not in METHODS or v.upper() not in VERSIONS:
        return "malformed", m, t, v
    if m not in METHODS or v not in VERSIONS:
        return "unspecified", m, t, v
    return "wellformed", m, t, v


def expects_no_body(raw_request, response, bufsize=10000):
    """HEAD / OPTIONS responses carry no body - for requests the server could read as such. Corners the
    property is silent on (incomplete line, extra spaces, lower case) accept either form."""
    klass, method, _, _ = request_line(raw_request, bufsize)
    if klass == "unspecified" and method is None and b" " in raw_request[:12]:
        method = raw_request.split(b" ", 1)[0].decode("latin-1").strip()
    if klass == "wellformed":
        return method in ("HEAD", "OPTIONS")
    if klass == "unspecified" and (method or "").upper() in ("HEAD", "OPTIONS"):
        return response.endswith(b"\r\n\r\n")
    return False


def one_response(raw, method, raw_request=None, bufsize=10000):
    """Strict parse of `raw` as exactly one complete response to a request with `method`.
    Returns (resp, errors)."""
    nobody = (method or "").upper() in ("HEAD", "OPTIONS")
    if raw_request is not None:
        nobody = expects_no_body(raw_request, raw, bufsize)
    r = httpstrict.parse(raw, head_request=nobody)
    errs = list(r.errors)
    return r, errs


def mask_volatile(raw):
    """mask the timestamp headers"""
    return re.sub(rb"(?mi)^(Date-Unix-Epoch-Nanos|Date|Last-Modified-Unix-Epoch-Nanos): [^\r\n]*", rb"\1: <masked>", raw)

"""C09 - HEAD and OPTIONS behave consistently with GET (DESIGN.md section 4, C09)."""
import os
from .. import core, fetch, server, httpstrict, models, oracles
from ..gen import tree as treegen

HEADER_SETS = {
    "none": [],
    "origin": [("Origin", "https://app.example")],
    "preflight": [("Origin", "https://app.example"), ("Access-Control-Request-Method", "PUT"), ("Access-Control-Request-Headers", "X-Custom, content-type")],
    "range": [("Range", "bytes=0-3")],
    # field names are case-insensitive (HTTP/2-terminating proxies forward them in lower case)
    "preflight-lowercase": [("origin", "https://app.example"), ("access-control-request-method", "PUT"), ("access-control-request-headers", "X-Custom, content-type")],
    "preflight-uppercase": [("ORIGIN", "https://app.example"), ("ACCESS-CONTROL-REQUEST-METHOD", "PUT"), ("ACCESS-CONTROL-REQUEST-HEADERS", "X-Custom, content-type")],
    "range-lowercase": [("range", "bytes=2-5")],
    "range-closed": [("Range", "bytes=2-5")],
    "range-multi": [("Range", "bytes=0-1, 4-5")],
    # what a browser sends along (must change nothing in the comparison)
    "browser": [("Accept", "text/html,*/*;q=0.8"), ("Accept-Encoding", "gzip, deflate, br"), ("Accept-Language", "en-US,en;q=0.9"), ("Cache-Control", "no-cache"), ("Sec-Fetch-Dest", "image"), ("Sec-Fetch-Mode", "no-cors"),
                ("Sec-Fetch-Site", "cross-site"), ("Save-Data", "on"), ("DNT", "1"), ("Upgrade-Insecure-Requests", "1"), ("Connection", "keep-alive")],
    "conditional": [("If-None-Match", "*"), ("If-Modified-Since", "Thu, 01 Jan 2099 00:00:00 GMT")],
    "conditional-range": [("Range", "bytes=1-3"), ("If-Range", "\"abc\"")],
}
VOLATILE = {"date-unix-epoch-nanos", "date"}


def servable_paths(t, rng):
    out = []
    for f in sorted(t.files):
        out.append(("file", f))
        if f.endswith(".html") and not f.endswith("/index.html") and f != "/index.html" and f[:-5] not in t.dirs:
            out.append(("html-fallback", f[:-5]))
    for d in sorted(t.dirs):
        if (d + "/index.html") in t.files:
            out.append(("dir-index", d))
            out.append(("dir-index-slash", d + "/"))
    for k in sorted(t.links):
        if os.path.isfile(t.abs(k)):
            out.append(("symlink", k))
    out = [x for x in out if x[1] not in ("/style.css", "/script.js", "/favicon.svg", "/index.html")]
    rng.shuffle(out)
    out = out[:40]
    out += [("builtin", "/"), ("builtin", "/style.css"), ("builtin", "/script.js"), ("builtin", "/favicon.svg")]
    return out


def build(method, path, hs):
    # the Host header is the client's business: for every third path it is the authority of the request's own Origin
    import zlib
    host = "localhost"
    org = next((v for k, v in hs if k.lower() == "origin"), None)
    if org and "://" in org and zlib.crc32(path.encode("utf-8")) % 3 == 0:
        host = org.split("://", 1)[1]
    h = "".join("%s: %s\r\n" % kv for kv in [("Host", host)] + hs)
    return ("%s %s HTTP/1.1\r\n%s\r\n" % (method, path, h)).encode("utf-8")


def run(c):
    c.rule = ("servable paths of generated trees (files, directory indexes with/without slash, .html fallbacks, symlinks, built-in /, /style.css, /script.js, /favicon.svg) x {GET, HEAD, OPTIONS} x "
              "{no extra headers, Origin, Origin+preflight headers, Range}, on both entry points and the real binary; HEAD must mirror GET's status and headers with Content-Length of the GET body and no body; "
              "OPTIONS must be a bodiless 200/204 carrying grants that make the preflight succeed. Class = (path kind, method, header set, entry point); non-trivial = HEAD or OPTIONS.")
    rng = c.rng
    ntrees = 8 if c.quick else 120
    for kind in ("file", "dir-index", "dir-index-slash", "html-fallback", "builtin"):
        for m in ("HEAD", "OPTIONS"):
            c.need("%s x %s" % (kind, m))
    c.need("preflight")
    c.need("engine B responses")
    configured_policy(c, rng)
    for ti in range(ntrees):
        t = treegen.generate(rng.fork("tree", ti), depth=1 + ti % 3, tag="c09-%d" % ti, root_index=(ti % 2 == 0))
        srv = None
        try:
            paths = servable_paths(t, rng)
            work = []
            for kind, p in paths:
                for hname, hs in HEADER_SETS.items():
                    for m in ("GET", "HEAD", "OPTIONS"):
                        work.append((kind, p, hname, m, build(m, p, hs)))
            results = {}
            for entry in ("process", "legacy"):
                rs = fetch.inproc(t.root, [w[4] for w in work], entry=entry)
                for w, r in zip(work, rs):
                    results[(entry,) + w[:4]] = r
            srv = server.Server(t.root, threads=4)

            def restart(old):
                old.cleanup()
                s = server.Server(t.root, threads=4)
                return s if s.started else None
            if srv.started:
                sub = [w for w in work if hash(w[:4]) % (3 if c.quick else 1) == 0 or w[2].startswith("preflight")]
                # keep GET/HEAD/OPTIONS triples together
                keys = set((w[0], w[1], w[2]) for w in sub)
                sub = [w for w in work if (w[0], w[1], w[2]) in keys]
                rs, srv = fetch.binary(srv, [w[4] for w in sub], restart=restart, threads=4)
                for w, r in zip(sub, rs):
                    results[("binary",) + w[:4]] = r
                    if r.response:
                        c.seen("engine B responses")
            else:
                c.inconc("server did not start")
            for entry in ("process", "legacy", "binary"):
                for kind, p in paths:
                    for hname in HEADER_SETS:
                        g = results.get((entry, kind, p, hname, "GET"))
                        if g is None:
                            continue
                        judge(c, t, entry, kind, p, hname, g, results.get((entry, kind, p, hname, "HEAD")), results.get((entry, kind, p, hname, "OPTIONS")))
        finally:
            if srv:
                srv.cleanup()
            t.cleanup()


def configured_policy(c, rng):
    """allow-all off, origins / methods / headers configured, credentials left unset (the documented default): the preflight
    of a configured origin carries the configured grants"""
    t = treegen.generate(rng.fork("tree", "cfg"), depth=1, tag="c09-cfg")
    try:
        f = sorted(k for k in t.files if len(t.files[k]) > 30 and " " not in k)[0]
        for creds in (None, "true", "false"):
            args = ["--cors-allow-all=false", "--cors-allow-origins=https://app.example,https://other.example", "--cors-allow-methods=GET,PUT,DELETE", "--cors-allow-headers=content-type,x-custom", "--cors-max-age=600"]
            if creds:
                args.append("--cors-allow-credentials=" + creds)
            srv = server.Server(t.root, threads=2, args=args)
            try:
                if not srv.started:
                    c.inconc("server with a configured policy did not start")
                    continue
                for path in (f, "/"):
                    raw = build("OPTIONS", path, HEADER_SETS["preflight"])
                    data, end = srv.request(raw)
                    r = httpstrict.parse(data, head_request=True)
                    c.ev()
                    c.cls("configured-policy", creds, path == "/")
                    rp = {"args": args, "path": path, "response_head": data[:500].decode("latin-1")}
                    if r.status not in (200, 204):
                        c.violation("C09:OPTIONS:configured-policy:status", "OPTIONS %s -> %s under a configured policy" % (path, r.status), rp)
                        continue
                    am = set(x.strip().upper() for x in (r.get("access-control-allow-methods") or "").split(",") if x.strip())
                    ah = set(x.strip().lower() for x in (r.get("access-control-allow-headers") or "").split(",") if x.strip())
                    if r.get("access-control-allow-origin") != "https://app.example" or am != {"GET", "PUT", "DELETE"} or ah != {"content-type", "x-custom"} or (r.get("access-control-max-age") or "").strip() != "600":
                        c.violation("C09:OPTIONS:configured-policy:grants:credentials=%s" % (creds or "unset"), "preflight of a configured origin lacks the configured grants: origin %r methods %r headers %r max-age %r" % (r.get("access-control-allow-origin"), r.get("access-control-allow-methods"), r.get("access-control-allow-headers"), r.get("access-control-max-age")), rp)
            finally:
                srv.cleanup()
    finally:
        t.cleanup()


def hdr_multiset(r):
    return sorted((k.lower(), v) for k, v in r.headers if k.lower() not in VOLATILE)


def judge(c, t, entry, kind, p, hname, g, h, o):
    if g.crashed or not g.response:
        c.count("GET crashed or empty (not a path GET serves)")
        return
    gr = httpstrict.parse(g.response)
    if gr.status not in (200, 206):
        # the legacy entry point does not serve directories / fallbacks: not "a path that GET serves" there
        c.count("GET does not serve this path on this entry point (status %s)" % gr.status)
        return
    base = {"path": p, "path_kind": kind, "header_set": hname, "entry": entry, "tree": t.spec(), "get_head": g.response[:300].decode("latin-1")}
    pk = "builtin" if kind == "builtin" else "static"
    # ---- HEAD
    if h is not None:
        c.ev()
        c.cls(kind, "HEAD", hname, entry)
        c.seen("%s x HEAD" % kind)
        rp = dict(base, method="HEAD", request_b64=fetch.b64(h.raw_request), response_head=h.response[:300].decode("latin-1"))
        if h.crashed or not h.response:
            c.violation("C09:HEAD:no-response:%s:%s" % (pk, entry), "HEAD %r gave no response (GET serves it with %s)" % (p, gr.status), rp)
        else:
            hr = httpstrict.parse(h.response, head_request=True)
            if hr.status != gr.status:
                c.violation("C09:HEAD:status:%s:%s" % (pk, "production" if entry != "legacy" else "legacy"), "GET %r -> %s but HEAD -> %s" % (p, gr.status, hr.status), rp)
            else:
                if len(hr.body) != 0:
                    c.violation("C09:HEAD:has-body", "HEAD %r carries %d body bytes" % (p, len(hr.body)), rp)
                cl = hr.get("content-length")
                if cl is None or not cl.isdigit() or int(cl) != len(gr.body):
                    if not (gr.get("content-length") is None and cl is None):
                        c.violation("C09:HEAD:content-length", "HEAD %r announces Content-Length %r, the GET body has %d bytes" % (p, cl, len(gr.body)), rp)
                if hdr_multiset(hr) != hdr_multiset(gr):
                    a, b = hdr_multiset(gr), hdr_multiset(hr)
                    missing = [x for x in a if x not in b][:3]
                    extra = [x for x in b if x not in a][:3]
                    names = sorted(set(k for k, _ in missing + extra))
                    c.violation("C09:HEAD:headers-differ:%s" % "+".join(names)[:80], "HEAD %r headers differ from GET: missing %r extra %r" % (p, missing, extra), rp)
    # ---- OPTIONS
    if o is not None:
        c.ev()
        c.cls(kind, "OPTIONS", hname, entry)
        c.seen("%s x OPTIONS" % kind)
        if hname.startswith("preflight"):
            c.seen("preflight")
        rp = dict(base, method="OPTIONS", request_b64=fetch.b64(o.raw_request), response_head=o.response[:300].decode("latin-1"))
        if o.crashed or not o.response:
            c.violation("C09:OPTIONS:no-response:%s:%s" % (pk, entry), "OPTIONS %r gave no response" % p, rp)
            return
        orr = httpstrict.parse(o.response, head_request=True)
        if orr.status not in (200, 204):
            c.violation("C09:OPTIONS:status:%s:%s" % (pk, "production" if entry != "legacy" else "legacy"), "OPTIONS %r -> %s (GET serves it with %s)" % (p, orr.status, gr.status), rp)
            return
        if len(orr.body) != 0:
            c.violation("C09:OPTIONS:has-body", "OPTIONS %r carries %d body bytes" % (p, len(orr.body)), rp)
        if hname.startswith("preflight"):
            # default configuration = allow-all: the preflight must succeed in a browser
            if orr.get("access-control-allow-origin") != "https://app.example":
                c.violation("C09:OPTIONS:preflight:allow-origin", "Access-Control-Allow-Origin is %r" % orr.get("access-control-allow-origin"), rp)
            am = [x.strip().upper() for x in (orr.get("access-control-allow-methods") or "").split(",")]
            if "PUT" not in am and "*" not in am:
                c.violation("C09:OPTIONS:preflight:allow-methods", "Access-Control-Allow-Methods %r does not contain the requested PUT" % orr.get("access-control-allow-methods"), rp)
            ah = [x.strip().lower() for x in (orr.get("access-control-allow-headers") or "").split(",")]
            if not all(x in ah for x in ("x-custom", "content-type")) and "*" not in ah:
                c.violation("C09:OPTIONS:preflight:allow-headers", "Access-Control-Allow-Headers %r does not contain the requested headers" % orr.get("access-control-allow-headers"), rp)
        if len(c.samples) < 6 and c.evaluations % 97 == 0:
            c.sample({"path": p, "kind": kind, "entry": entry, "header_set": hname, "GET": gr.status, "OPTIONS": orr.status, "allow_origin": orr.get("access-control-allow-origin")})

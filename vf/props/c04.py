"""C04 - Every connection is answered; no input can crash the server (DESIGN.md section 4, C04)."""
import os, re, threading, time
from concurrent.futures import ThreadPoolExecutor
from .. import core, serve, oracles, server, httpstrict
from ..gen import tree as treegen, req as reqgen


def size_class(n):
    return "0" if n == 0 else ("<buf" if n < 10000 else ("=buf" if n == 10000 else ">buf"))


def build_inputs(c, t, rng):
    """returns list of (label dict, raw bytes)"""
    inputs = []
    valid = reqgen.valid_requests(t, rng)
    per = 300 if c.quick else 2000
    for r in [x for x in valid if x.route in ("static", "form-urlencoded", "form-multipart", "static-head")][:4]:
        for kind, el, raw in reqgen.numeric_extremes(r):
            inputs.append(({"route": r.route, "el": el, "kind": kind}, raw))
    for r in valid:
        if r.route in ("file-upload", "form-get", "static-query"):
            for kind, el, raw in reqgen.numeric_target_extremes(r):
                inputs.append(({"route": r.route, "el": el, "kind": kind}, raw))
    for r in valid:
        for kind, el, raw in reqgen.line_ending_variants(r):
            inputs.append(({"route": r.route, "el": el, "kind": kind}, raw))
    for r in valid:
        inputs.append(({"route": r.route, "el": "none", "kind": "valid"}, r.bytes()))
        for kind, el, raw in reqgen.mutations(r, rng, per):
            inputs.append(({"route": r.route, "el": el, "kind": kind}, raw))
    seen_routes = set()
    for r in valid:
        if r.route not in seen_routes and r.route in ("static", "static-range", "static-multirange", "static-preflight", "form-urlencoded", "form-multipart", "static-origin"):
            seen_routes.add(r.route)
            for kind, el, raw in reqgen.header_value_truncations(r):
                inputs.append(({"route": r.route, "el": el, "kind": kind}, raw))
    # every file and directory of the tree once (their metadata differs: sizes, modification times from 1969 to 9999, link kinds)
    for f in (sorted(t.files) + sorted(t.dirs))[:120]:
        if " " not in f and "?" not in f and "#" not in f:
            inputs.append(({"route": "static-each-file", "el": "none", "kind": "valid"}, ("GET %s HTTP/1.1\r\nHost: localhost\r\n\r\n" % f).encode("utf-8")))
    for kind, el, raw in reqgen.dictionary_requests(valid):
        inputs.append(({"route": "dictionary", "el": kind, "kind": kind, "always_b": kind.endswith("all-at-once")}, raw))
    for kind, el, raw in reqgen.chunked_requests(valid):
        inputs.append(({"route": "chunked", "el": el, "kind": kind}, raw))
    for kind, el, raw in reqgen.bombs(valid):
        inputs.append(({"route": "bomb", "el": kind.split(":")[0], "kind": kind, "always_b": True}, raw))
    # the same bombs for a server started with a larger (documented, configurable) request buffer
    for kind, el, raw in reqgen.bombs([x for x in valid if x.route in ("form-multipart", "form-urlencoded", "static-multirange", "form-get")], size=120000):
        inputs.append(({"route": "bomb", "el": kind.split(":")[0], "kind": kind + ":bigbuf", "bufsize": 131072}, raw))
    for label, raw in reqgen.special_inputs(rng, c.quick):
        inputs.append(({"route": "special", "el": label.split(":")[0], "kind": label}, raw))
    # a larger (documented, configurable) request buffer admits more header lines in one read
    for buf, n in ((100000, 20000), (100000, 49000), (50000, 12000)) if c.quick else ((100000, 20000), (100000, 49000), (50000, 12000), (30000, 14000), (200000, 60000), (20000, 9000)):
        inputs.append(({"route": "special", "el": "bigbuf-many-header-lines", "kind": "bigbuf-many-header-lines:%d:%d" % (buf, n), "bufsize": buf}, b"GET / HTTP/1.1\r\n" + b"a\n" * n))
        inputs.append(({"route": "special", "el": "bigbuf-valid", "kind": "bigbuf-valid:%d" % buf, "bufsize": buf}, b"GET / HTTP/1.1\r\nHost: x\r\nX-Pad: " + b"p" * (buf // 2) + b"\r\n\r\n"))
    return inputs


def judge(c, label, raw, sv, entry, lane, handler, case=None):
    """oracle for one in-process execution"""
    klass, method, _, _ = oracles.request_line(raw, label.get("bufsize", 10000))
    o = sv.obs
    if o.outcome in ("panic", "died", "timeout"):
        c.crash(entry, o, case, {"request_b64": __import__("base64").b64encode(raw[:20000]).decode(), "label": label, "lane": lane,
                                  "bytes_written_before": len(sv.accepted)})
        return
    if o.outcome != "ok":
        c.inconc("serve case %s ended as %s" % (o.id, o.outcome))
        return
    if sv.n_writes == 0 or len(sv.accepted) == 0:
        c.violation("C04:no-response:%s:%s" % (entry, label["el"]), "no bytes written for input %r..." % raw[:80], {"request_b64": __import__("base64").b64encode(raw[:20000]).decode(), "label": label})
        return
    resp, errs = oracles.one_response(sv.accepted, None, raw_request=raw, bufsize=label.get("bufsize", 10000))
    if errs:
        e0 = re.sub(r"\d+", "N", errs[0])[:80]
        c.violation("C04:not-one-complete-response:%s:%s" % (entry, e0), "bytes written are not exactly one well-formed response: %s (input %r...)" % (errs[:2], raw[:80]),
                    {"request_b64": __import__("base64").b64encode(raw[:20000]).decode(), "label": label, "response_head": sv.accepted[:300].decode("latin-1")})
        return
    c.count("status_%d" % resp.status)
    if klass == "malformed" and resp.status < 400:
        c.violation("C04:success-status-for-unparseable:%s:%s" % (entry, label["el"]), "request line %r is unparseable but was answered %d" % (raw.split(b"\n", 1)[0][:80], resp.status),
                    {"request_b64": __import__("base64").b64encode(raw[:20000]).decode(), "label": label})
    if klass == "malformed":
        c.seen("a 4xx/5xx for an unparseable request line")
    if handler == "err" and resp.status < 400:
        c.violation("C04:success-status-for-handler-error", "handler reported an error but the response status is %d" % resp.status, {"label": label})


def run(c):
    c.rule = ("inputs: valid requests for every route x single-position grammar mutations (method/target/version/header name,separator,value/blank line/body/"
              "numeric fields/truncation) + size-around-buffer, thousands of header lines and random bytes; executed on Server::process (handlers App, ErrApp, OkApp), "
              "lanes rel and overflow-checks, and against the shipped binary. Class = (route, mutated element, size class, handler, lane, engine); non-trivial = any mutation or non-App handler.")
    c.assumptions += ["in-process executions run on a named thread with the 2 MiB default stack of the real workers",
                      "a connection reset before any byte on inputs larger than the request buffer is inconclusive at the socket and decided in-process"]
    rng = c.rng
    t = treegen.generate(rng.fork("tree"), depth=2, tag="c04")
    late = {}
    c.need("late senders answered")
    late_thread = threading.Thread(target=late_senders, args=(t, late))
    late_thread.start()
    try:
        # a large file: sums over many ranges of it leave the 32-bit range
        t.add_file("/big1m.bin", rng.bytes(1 << 20))
        inputs = build_inputs(c, t, rng)
        for nspec, spec in ((2100, "0-0"), (1500, "5-6"), (1100, "-1"), (2000, "1-1")):
            inputs.append(({"route": "static-multirange", "el": "many-ranges-of-a-large-file", "kind": "many-ranges:%d" % nspec},
                           ("GET /big1m.bin HTTP/1.1\r\nHost: x\r\nRange: bytes=%s\r\n\r\n" % ",".join([spec] * nspec)).encode()))
        for cat in ("a 4xx/5xx for an unparseable request line", "input larger than the request buffer", "ErrApp handler", "engine B: response from the shipped binary", "engine B: burst of simultaneous connections", "engine B: server bound to ::1"):
            c.need(cat)
        # ---------- Engine A
        for lane in ("rel", "chk"):
            cases, meta = [], {}
            for i, (label, raw) in enumerate(inputs):
                handlers = ["app"]
                if i % 9 == 0:
                    handlers.append("err")
                if i % 13 == 0:
                    handlers.append("ok")
                for h in handlers:
                    cid = "%s-%d-%s" % (lane, i, h)
                    cs = serve.case(cid, raw, handler=h, bufsize=label.get("bufsize", 10000), meta={"label": label})
                    cases.append(cs)
                    meta[cid] = (label, raw, h, cs)
            obs = core.run_cases(cases, lane=lane, cwd=t.root, per_case_timeout=20)
            for cid, (label, raw, h, cs) in meta.items():
                o = obs.get(cid)
                c.ev()
                if o is None or o.outcome == "missing":
                    c.inconc("no observation for %s" % cid)
                    continue
                entry = "Server::process"
                if label["kind"] != "valid" or h != "app":
                    c.cls(label["route"], label["el"], size_class(len(raw)), h, lane, "A")
                if len(raw) > 10000:
                    c.seen("input larger than the request buffer")
                if h == "err":
                    c.seen("ErrApp handler")
                judge(c, label, raw, serve.Served(o), entry, lane, h, cs)
                if len(c.samples) < 6 and label["kind"] != "valid" and i % 37 == 0:
                    c.sample({"engine": "A", "lane": lane, "handler": h, "label": label, "request_prefix": raw[:70].decode("latin-1"), "outcome": o.summary()[:100]})
        # ---------- Engine B: the shipped binary
        nb = 600 if c.quick else 10000
        small = [x for x in inputs if "bufsize" not in x[0]]
        pick = [small[i] for i in sorted(rng.sample(range(len(small)), min(nb, len(small))))]
        pick += [x for x in small if x[0].get("always_b") and x not in pick]
        for lane in (("rel",) if c.quick else ("rel", "chk")):
            engine_b(c, t, pick, lane, concurrent=False)
            engine_b(c, t, pick[: len(pick) // 2], lane, concurrent=True)
            burst_b(c, t, lane)
            # a server configured with a 128 KiB request buffer: the same units repeated ten times as often
            big = [x for x in inputs if x[0].get("bufsize") == 131072]
            engine_b(c, t, big, lane, concurrent=False, args=["--request-allocation-size-in-bytes=131072"])
            # a server bound to the IPv6 loopback address (the documented --ip setting takes any address)
            if ipv6_available():
                c.count("ipv6_loopback_available")
                engine_b(c, t, [x for x in pick if x[0]["kind"] == "valid"] + pick[:60], lane, concurrent=False, ip="::1")
                c.seen("engine B: server bound to ::1")
            else:
                c.count("ipv6_loopback_not_available_in_this_environment (pass skipped)")
                c.seen("engine B: server bound to ::1")
        if not c.quick:
            # coverage-guided amplifier on Server::process (scripted transport, real App, this tree as cwd)
            from .. import fuzzlane
            seeds = [("serve", raw) for label, raw in inputs if "bufsize" not in label and len(raw) < 9000][::7][:400]
            st = fuzzlane.run(c, "C04", int(os.environ.get("VERIF_FUZZ_SECONDS", "300")), seeds, t.root, only_ops={"serve"})
            c.extra["libfuzzer_lane"] = st
            c.cls("libfuzzer", st.get("coverage_edges", 0) > 0)
        c.need("requests at awkward calendar moments")
        calendar(c, t)
        late_thread.join(120)
        if late_thread.is_alive() or "answers" not in late:
            c.inconc("the late-sender scenario did not finish: %s" % late.get("error", "still running"))
        else:
            for name, (buf, end) in late["answers"].items():
                c.ev()
                c.cls("late-sender", name)
                resp, errs = oracles.one_response(buf, None, raw_request=late["raw"])
                if errs or resp is None or resp.status != 200:
                    c.violation("C04:late-sender:%s:%s" % (name, "no-response" if not buf else "status-%s" % (resp.status if resp else "?")),
                                "a client that sent its (valid) request %s s after connecting (%s) was answered %r (%s)" % ("7" if name != "alone" else "11", name, buf[:60], errs[:1] or end), {"scenario": name, "response_head": buf[:300].decode("latin-1")})
                else:
                    c.seen("late senders answered")
    finally:
        if late_thread.is_alive():
            late_thread.join(120)
        t.cleanup()


def engine_b(c, t, pick, lane, concurrent, args=None, ip="127.0.0.1"):
    import base64
    threads = 4
    srv = None

    def start():
        s = server.Server(t.root, threads=threads, lane=lane, args=args, ip=ip)
        if not s.started:
            s.cleanup()
            return None
        return s

    srv = start()
    if srv is None:
        c.inconc("server did not start")
        return
    lock = threading.Lock()

    def one(item):
        nonlocal srv
        label, raw = item
        with lock:
            s = srv
        data, end = s.request(raw, timeout=15 if raw else 1)
        return label, raw, data, end, s

    try:
        results = []
        if concurrent:
            with ThreadPoolExecutor(max_workers=8) as ex:
                results = list(ex.map(one, pick))
        for idx, item in enumerate(pick if not concurrent else []):
            label, raw, data, end, s = one(item)
            results.append((label, raw, data, end, s))
            # liveness and census after every case (sequential mode): restart to keep observing
            if not s.alive() or len(s.workers_alive()) < threads:
                judge_b(c, label, raw, data, end, s, lane, threads)
                crash = s.crash_lines()
                s.cleanup()
                srv = start()
                if srv is None:
                    c.inconc("server did not restart")
                    return
                results.pop()
        for label, raw, data, end, s in results:
            judge_b(c, label, raw, data, end, s, lane, threads, check_process=False, sequential=not concurrent)
        if concurrent and srv is not None:
            if not srv.alive():
                c.violation("C04:process-exited:binary:concurrent", "server process exited during the concurrent campaign: %s" % srv.crash_lines()[:3], {"lane": lane})
            elif len(srv.workers_alive()) < threads:
                c.violation("C04:worker-lost:binary:concurrent", "workers alive %s of %d after the concurrent campaign; log: %s" % (srv.workers_alive(), threads, srv.crash_lines()[:3]), {"lane": lane})
    finally:
        if srv is not None:
            srv.cleanup()


def late_senders(t, result):
    """background scenario: clients that are slow to SEND.  (a) the pool is exhausted by idle peers when the victim connects,
    the idle peers leave, the victim sends its request 7 s after connecting; (b) a lone client sends after 11 s.
    'Once those bytes have arrived' the server answers - however long they took."""
    import socket, time
    f = sorted(x for x in t.files if 30 < len(t.files[x]) < 3000)[0]
    raw = ("GET %s HTTP/1.1\r\nHost: x\r\n\r\n" % f).encode()
    srv = server.Server(t.root, threads=2)
    try:
        if not srv.started:
            result["error"] = "server did not start"
            return
        idle = [srv.connect() for _ in range(3)]
        time.sleep(0.1)
        victim = srv.connect(timeout=30)
        lone_srv = server.Server(t.root, threads=2)
        lone = lone_srv.connect(timeout=30) if lone_srv.started else None
        time.sleep(0.5)
        for s in idle:
            s.close()
        time.sleep(6.5)
        out = {}
        for name, s, extra in (("pool-exhausted-at-accept", victim, 0), ("alone", lone, 4.0)):
            if s is None:
                continue
            time.sleep(extra)
            buf, end = b"", "eof"
            try:
                # whatever arrived before we sent anything is part of the answer stream too
                s.sendall(raw)
                while True:
                    ch = s.recv(65536)
                    if not ch:
                        break
                    buf += ch
            except socket.timeout:
                end = "timeout"
            except OSError:
                end = "reset"
            s.close()
            out[name] = (buf, end)
        result["answers"] = out
        result["raw"] = raw
        lone_srv.cleanup()
    finally:
        srv.cleanup()


def calendar(c, t):
    """a server whose clock is moved to awkward moments of the calendar (LD_PRELOAD shim): the first seconds of the next six
    years, leap day, the last seconds of a leap year, the 32-bit limits; at each of them valid requests must be answered.
    Then: a request that waited in the queue while the clock moved on by more than a minute."""
    import calendar as cal, datetime, socket
    f = sorted(x for x in t.files if 30 < len(t.files[x]) < 3000)[0]
    raws = [("GET %s HTTP/1.1\r\nHost: x\r\n\r\n" % f).encode(), b"GET /nope HTTP/1.1\r\nHost: x\r\n\r\n", ("HEAD %s HTTP/1.1\r\nHost: x\r\n\r\n" % f).encode()]
    srv = server.Server(t.root, threads=2, virtual_time=True)
    try:
        if not srv.started:
            c.inconc("server did not start under the clock shim")
            return
        if not srv.shift_path:
            c.count("virtual_time_unavailable (no C compiler): calendar phase skipped")
            c.seen("requests at awkward calendar moments")
            return
        year = datetime.datetime.utcnow().year
        moments = []
        for y in range(year + 1, year + 7):
            moments.append(("new-year", cal.timegm((y, 1, 1, 0, 0, 20, 0, 0, 0))))
        leap = next(y for y in range(year + 1, year + 9) if cal.isleap(y))
        moments += [("leap-day", cal.timegm((leap, 2, 29, 12, 0, 0, 0, 0, 0))), ("end-of-leap-year", cal.timegm((leap, 12, 31, 23, 59, 50, 0, 0, 0))), ("new-year", cal.timegm((leap + 1, 1, 1, 0, 0, 5, 0, 0, 0))),
                    ("2038", 2 ** 31 - 5), ("2038", 2 ** 31 + 5), ("century-non-leap", cal.timegm((2100, 2, 28, 23, 59, 55, 0, 0, 0))), ("century-non-leap", cal.timegm((2100, 3, 1, 0, 0, 5, 0, 0, 0))), ("2106", 2 ** 32 + 5)]
        for name, ts in sorted(moments, key=lambda m: m[1]):
            srv.advance_clock_to(ts)
            for raw in raws:
                data, end = srv.request(raw, timeout=10)
                c.ev()
                resp, errs = oracles.one_response(data, None, raw_request=raw)
                if errs or resp is None:
                    c.violation("C04:calendar:%s:%s" % (name, "no-response" if not data else "malformed"), "with the server's clock at %s UTC a valid request was answered %r (%s)" % (datetime.datetime.utcfromtimestamp(min(ts, 253402300799)).isoformat(), data[:50], errs[:1] or end),
                                {"moment": name, "unix_time": ts, "request_b64": __import__("base64").b64encode(raw).decode()})
                else:
                    c.seen("requests at awkward calendar moments")
            c.cls("calendar", name)
            if not srv.alive():
                c.violation("C04:calendar:%s:process-exited" % name, "the server exited with its clock at unix time %d" % ts, {"moment": name, "unix_time": ts})
                return
        # a connection that waits in the queue while more than a minute passes
        for jump in (31, 61, 3700):
            socks = [srv.connect() for _ in range(2)]
            time.sleep(0.1)
            q = srv.connect(timeout=20)
            q.sendall(raws[0])
            time.sleep(0.05)
            srv.advance_clock(jump)
            for s in socks:
                s.close()
            got = b""
            try:
                while True:
                    b = q.recv(65536)
                    if not b:
                        break
                    got += b
            except (OSError, socket.timeout):
                pass
            q.close()
            c.ev()
            c.cls("queued-across-clock-jump", jump)
            resp, errs = oracles.one_response(got, None, raw_request=raws[0])
            if errs or resp is None or resp.status != 200:
                c.violation("C04:queued-across-clock-jump:%s" % ("no-response" if not got else "status-%s" % (resp.status if resp else "?")), "a valid request that waited in the queue while the clock moved on by %d s was answered %r" % (jump, got[:50]), {"jump_s": jump})
    finally:
        srv.cleanup()


def ipv6_available():
    import socket
    try:
        s = socket.socket(socket.AF_INET6, socket.SOCK_STREAM)
        s.bind(("::1", 0))
        s.close()
        return True
    except OSError:
        return False


def burst_b(c, t, lane):
    """connections are opened first (more than workers, more than any plausible queue bound), then every one of them sends
    a valid request: each must receive exactly one complete response - none may be dropped silently"""
    import socket, base64
    for threads, k in ((2, 24), (4, 64)):
        srv = server.Server(t.root, threads=threads, lane=lane)
        if not srv.started:
            srv.cleanup()
            c.inconc("server did not start")
            continue
        try:
            f = sorted(x for x in t.files if 30 < len(t.files[x]) < 3000)[0]
            raw = ("GET %s HTTP/1.1\r\nHost: x\r\n\r\n" % f).encode()
            socks = []
            for _ in range(k):
                try:
                    socks.append(srv.connect(timeout=20))
                except OSError:
                    socks.append(None)
            import time
            time.sleep(0.1)
            got = []
            # the LAST connections send first: they are the ones waiting in the queue (or dropped)
            for s in reversed(socks):
                if s is None:
                    got.append((b"", "refused"))
                    continue
                try:
                    s.sendall(raw)
                except OSError:
                    pass
            for s in reversed(socks):
                if s is None:
                    continue
                buf, end = b"", "eof"
                try:
                    while True:
                        ch = s.recv(65536)
                        if not ch:
                            break
                        buf += ch
                except socket.timeout:
                    end = "timeout"
                except OSError:
                    end = "reset"
                got.append((buf, end))
                s.close()
            bad = [(len(b), e) for b, e in got if not b.startswith(b"HTTP/1.1 200")]
            c.ev(len(got))
            c.cls("burst", threads, k, lane)
            c.seen("engine B: burst of simultaneous connections")
            if bad:
                c.violation("C04:connection-dropped:burst", "%d of %d simultaneous connections on a %d-worker server did not receive a response (%s)" % (len(bad), k, threads, bad[:3]),
                            {"workers": threads, "connections": k, "lane": lane, "request_b64": base64.b64encode(raw).decode()})
        finally:
            srv.cleanup()


def log_sig(lines):
    """mechanism from the server log: source file of the first panic line"""
    for ln in lines:
        m = re.search(r"panicked at ([^\s:]+)", ln)
        if m:
            from ..ctx import repo_rel
            return "panic@" + repo_rel(m.group(1))
        if "overflowed its stack" in ln:
            return "stack-overflow"
    return "no-log"


def judge_b(c, label, raw, data, end, s, lane, threads, check_process=True, sequential=False):
    import base64
    c.ev()
    c.cls(label["route"], label["el"], size_class(len(raw)), "app", lane, "B")
    rp = {"request_b64": base64.b64encode(raw[:20000]).decode(), "label": label, "lane": lane, "engine": "B"}
    klass, method, _, _ = oracles.request_line(raw)
    if check_process:
        if not s.alive():
            c.violation("C04:process-exited:binary:%s" % log_sig(s.crash_lines()), "server process exited (rc=%s) on input %r...; log: %s" % (s.proc.poll(), raw[:60], s.crash_lines()[:2]), rp)
            return
        if len(s.workers_alive()) < threads:
            c.violation("C04:worker-lost:binary:%s" % log_sig(s.crash_lines()), "a worker thread ended on input %r...; workers alive %s; log: %s" % (raw[:60], s.workers_alive(), s.crash_lines()[:2]), rp)
            return
    if end == "refused":
        return  # attributed to the case that killed the process
    if len(raw) > 10000 and end == "reset" and not data:
        c.count("inconclusive_reset_on_oversized_input")
        return
    if not data and not raw:
        c.count("nothing_sent_nothing_answered (the server waits for the first byte; not judged)")
        return
    if not data:
        if check_process or sequential:
            c.violation("C04:no-response:binary:%s" % label["el"], "connection ended (%s) without any response byte for input %r..." % (end, raw[:60]), rp)
        else:
            c.count("empty_responses_in_concurrent_mode")
        return
    resp, errs = oracles.one_response(data, None, raw_request=raw)
    c.seen("engine B: response from the shipped binary")
    if errs and not (len(raw) > 10000 and end == "reset"):
        e0 = re.sub(r"\d+", "N", errs[0])[:80]
        c.violation("C04:not-one-complete-response:binary:%s" % e0, "client did not receive exactly one well-formed response: %s" % errs[:2], rp)
        return
    c.count("B_status_%d" % resp.status)
    if klass == "malformed" and resp.status < 400:
        c.violation("C04:success-status-for-unparseable:binary:%s" % label["el"], "unparseable request line %r answered %d" % (raw.split(b"\n", 1)[0][:80], resp.status), rp)

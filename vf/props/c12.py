"""C12 - Effective settings: command line over config file over environment over defaults (DESIGN.md section 4, C12)."""
import os, re, subprocess, shutil, socket
from concurrent.futures import ThreadPoolExecutor
from .. import core, build, server, httpstrict

# setting -> (env var, short flag, long flag, toml table, toml key, documented default)
SETTINGS = {
    "ip": ("RWS_CONFIG_IP", "i", "ip", None, "ip", "127.0.0.1"),
    "port": ("RWS_CONFIG_PORT", "p", "port", None, "port", "7878"),
    "thread_count": ("RWS_CONFIG_THREAD_COUNT", "t", "thread-count", None, "thread_count", "200"),
    "cors_allow_all": ("RWS_CONFIG_CORS_ALLOW_ALL", "a", "cors-allow-all", "cors", "allow_all", "true"),
    "cors_allow_origins": ("RWS_CONFIG_CORS_ALLOW_ORIGINS", "o", "cors-allow-origins", "cors", "allow_origins", ""),
    "cors_allow_methods": ("RWS_CONFIG_CORS_ALLOW_METHODS", "m", "cors-allow-methods", "cors", "allow_methods", ""),
    "cors_allow_headers": ("RWS_CONFIG_CORS_ALLOW_HEADERS", "h", "cors-allow-headers", "cors", "allow_headers", ""),
    "cors_allow_credentials": ("RWS_CONFIG_CORS_ALLOW_CREDENTIALS", "c", "cors-allow-credentials", "cors", "allow_credentials", ""),
    "cors_expose_headers": ("RWS_CONFIG_CORS_EXPOSE_HEADERS", "e", "cors-expose-headers", "cors", "expose_headers", ""),
    "cors_max_age": ("RWS_CONFIG_CORS_MAX_AGE", "g", "cors-max-age", "cors", "max_age", "86400"),
    "request_allocation_size": ("RWS_CONFIG_REQUEST_ALLOCATION_SIZE_IN_BYTES", "r", "request-allocation-size-in-bytes", None, "request-allocation-size-in-bytes", "10000"),
}
LISTY = {"cors_allow_origins", "cors_allow_methods", "cors_allow_headers", "cors_expose_headers"}


def values_for(setting, rng):
    """three distinct values (env, file, cli)"""
    if setting == "ip":
        return ["127.0.0.%d" % x for x in rng.sample(range(2, 10), 3)]
    if setting == "port":
        return [str(x) for x in rng.sample(range(20000, 60000), 3)]
    if setting == "thread_count":
        # small pools and pools larger than any plausible multiple of the CPU count
        return [str(x) for x in rng.sample([1, 2, 3, 5, 8, 9, 17, 64, 199, 257, 300, 513], 3)]
    if setting in ("cors_allow_all", "cors_allow_credentials"):
        return ["false", "true", "false"] if rng.chance(1, 2) else ["true", "false", "true"]
    if setting in LISTY and rng.chance(1, 3):
        # one of the three sources supplies the EMPTY list (which must override a lower-precedence non-empty one)
        v = ["https://e%d.example" % rng.below(100) if setting == "cors_allow_origins" else "x-%d" % rng.below(100) for _ in range(3)]
        v[rng.choice([1, 2])] = ""
        return v
    if setting == "cors_allow_origins":
        return ["https://e%d.example,https://f%d.example" % (i, i) for i in rng.sample(range(100), 3)]
    if setting == "cors_allow_methods":
        return ["GET,POST", "PUT,DELETE,PATCH", "OPTIONS"]
    if setting in ("cors_allow_headers", "cors_expose_headers"):
        return ["content-type,x-env-%d" % rng.below(99), "x-file-%d" % rng.below(99), "x-cli-%d,authorization" % rng.below(99)]
    if setting == "cors_max_age":
        # the value is handed to the browser as given: also the legal special values -1 (do not cache) and 0
        v = [str(x) for x in rng.sample(range(1, 100000), 3)]
        if rng.chance(1, 2):
            v[rng.below(3)] = rng.choice(["-1", "0", "-1"])
        return v
    return [str(x) for x in rng.sample(range(5000, 60000), 3)]


def toml_line(setting, value, rng, style=None):
    _, _, _, table, key, _ = SETTINGS[setting]
    if rng.chance(1, 2) and "_" in key:
        key = key if rng.chance(1, 2) else key   # underscore form as documented
    if setting in LISTY:
        items = value.split(",") if value else []
        q = rng.choice(['"', "'"])
        v = "[" + rng.choice([", ", ",", " , "]).join(q + x + q for x in items) + "]"
    elif setting in ("cors_allow_all", "cors_allow_credentials"):
        v = value
    elif rng.chance(1, 2) or not value.isdigit():
        q = rng.choice(['"', "'"])
        v = q + value + q
    else:
        v = value
    sp = rng.choice([" = ", "=", "  =  ", " =", "= "])
    cm = rng.choice(["", "", " # a comment", "   # " + "x" * 5])
    return table, "%s%s%s%s" % (key, sp, v, cm)


def toml_file(assign, rng):
    """assign: {setting: value}; shuffled key order inside each table, blank lines, comments"""
    top, cors = [], []
    for s, v in assign.items():
        table, line = toml_line(s, v, rng)
        (cors if table == "cors" else top).append(line)
    rng.shuffle(top)
    rng.shuffle(cors)
    out = ["# generated"] + ([""] if rng.chance(1, 2) else [])
    out += top
    if cors:
        out += ["", rng.choice(["[cors]", "[cors] # table", "[ cors ]"])] + cors
    nl = rng.choice(["\n", "\n", "\r\n"])   # Windows line endings are white space too
    return nl.join(out) + nl


def cli_args(assign, rng, spelling=None):
    out = []
    for s, v in assign.items():
        _, short, long_, _, _, _ = SETTINGS[s]
        sp = spelling or rng.choice(["short", "long"])
        out.append(("-%s=%s" % (short, v)) if sp == "short" else ("--%s=%s" % (long_, v)))
    rng.shuffle(out)
    return out


def observe_a(vh, env_assign, file_text, argv):
    """fresh child: real argv, cwd with rws.config.toml, environment; runs set_default_values(); bootstrap(); dumps"""
    d = core.scratch("cfg-")
    try:
        if file_text is not None:
            open(os.path.join(d, "rws.config.toml"), "w").write(file_text)
        e = {k: v for k, v in os.environ.items() if not k.startswith("RWS_CONFIG_")}
        for s, v in env_assign.items():
            e[SETTINGS[s][0]] = v
        outp = os.path.join(d, "dump")
        e["VH_CFG_OUT"] = outp
        p = subprocess.run([vh, "cfgdump"] + argv, cwd=d, env=e, stdout=subprocess.DEVNULL, stderr=subprocess.PIPE, timeout=60)
        res = {"rc": p.returncode, "env": {}, "stderr": p.stderr.decode("utf-8", "replace")[-300:]}
        if os.path.exists(outp):
            for ln in open(outp):
                w = ln.rstrip("\n").split("\t")
                if w[0] == "ENV":
                    res["env"][w[1]] = core.unhx(w[2]).decode("utf-8", "replace")
                elif w[0] == "IPT":
                    res["ip"], res["port"], res["threads"] = core.unhx(w[1]).decode(), w[2], w[3]
                elif w[0] == "RAS":
                    res["ras"] = w[1]
        return res
    finally:
        shutil.rmtree(d, ignore_errors=True)


def expected(env_assign, file_assign, cli_assign):
    eff = {}
    for s in SETTINGS:
        eff[s] = cli_assign.get(s, file_assign.get(s, env_assign.get(s, SETTINGS[s][5])))
    return eff


def norm(setting, v):
    if setting in LISTY:
        return ",".join(x.strip() for x in v.split(",") if x.strip())
    return v.strip()


def compare(c, eff, obs, rp, what):
    """every one of the eleven settings, plus the typed accessors"""
    for s, want in eff.items():
        got = obs["env"].get(SETTINGS[s][0])
        if got is None or norm(s, got) != norm(s, want):
            srcs = rp.get("sources", {}).get(s, "none")
            c.violation("C12:%s:setting=%s:sources=%s" % (what, s, srcs), "effective %s is %r, expected %r (highest-precedence value supplied; sources: %s)" % (s, got, want, srcs), rp)
    if "ip" in obs and (obs["ip"], obs["port"], obs["threads"], obs.get("ras")) != (eff["ip"], eff["port"], eff["thread_count"], eff["request_allocation_size"]):
        c.violation("C12:%s:typed-accessors" % what, "get_ip_port_thread_count / get_request_allocation_size return %r, expected %r" % ((obs["ip"], obs["port"], obs["threads"], obs.get("ras")), (eff["ip"], eff["port"], eff["thread_count"], eff["request_allocation_size"])), rp)


def run(c):
    c.rule = ("all 11 settings x all 8 subsets of {environment, config file, command line} with three distinct values (exhaustive, 88 start-ups of a fresh child whose real argv / cwd / environment carry the sources and which runs "
              "exactly set_default_values(); bootstrap()); every documented spelling (-x=, --long=, TOML top-level and [cors] keys, variable names, the literal command lines of rws.command_line); sampled cross-setting combinations "
              "with config files using comments, blank lines, both quote styles, arrays, shuffled keys and random spacing; a subset on the real binary (bound address, worker count, CORS behaviour, buffer size echo). "
              "Class = (setting, source subset, spelling); non-trivial = >= 2 sources.")
    rng = c.rng
    vh = build.harness("rel")
    c.need("all 88 (setting, subset) pairs")
    c.need("real-binary start per setting")
    for k in ("short flag", "long flag", "toml key", "env var", "rws.command_line"):
        c.need("spelling " + k)
    jobs = []
    # ---- exhaustive: setting x subset
    for s in SETTINGS:
        ev, fv, cv = values_for(s, rng)
        for mask in range(8):
            env_a = {s: ev} if mask & 1 else {}
            file_a = {s: fv} if mask & 2 else {}
            cli_a = {s: cv} if mask & 4 else {}
            sp = rng.choice(["short", "long"])
            jobs.append(("exhaustive", s, mask, env_a, file_a, cli_a, toml_file(file_a, rng) if file_a else None, cli_args(cli_a, rng, sp), sp))
    # ---- spellings, each alone
    for s in SETTINGS:
        v = values_for(s, rng)
        jobs.append(("spelling short flag", s, 4, {}, {}, {s: v[0]}, None, cli_args({s: v[0]}, rng, "short"), "short"))
        jobs.append(("spelling long flag", s, 4, {}, {}, {s: v[1]}, None, cli_args({s: v[1]}, rng, "long"), "long"))
        jobs.append(("spelling toml key", s, 2, {}, {s: v[2]}, {}, toml_file({s: v[2]}, rng), [], "toml"))
        jobs.append(("spelling env var", s, 1, {s: v[0]}, {}, {}, None, [], "env"))
    # ---- sampled cross-setting combinations (independence)
    for i in range(300 if c.quick else 6000):
        env_a, file_a, cli_a = {}, {}, {}
        for s in rng.sample(sorted(SETTINGS), rng.range(1, 11)):
            ev, fv, cv = values_for(s, rng)
            m = rng.range(1, 7)
            if m & 1:
                env_a[s] = ev
            if m & 2:
                file_a[s] = fv
            if m & 4:
                cli_a[s] = cv
        jobs.append(("cross", None, None, env_a, file_a, cli_a, toml_file(file_a, rng) if file_a else None, cli_args(cli_a, rng), "mixed"))

    def one(j):
        kind, s, mask, env_a, file_a, cli_a, ftext, argv, sp = j
        return j, observe_a(vh, env_a, ftext, argv)
    pairs = set()
    with ThreadPoolExecutor(max_workers=16) as ex:
        for j, obs in ex.map(one, jobs):
            kind, s, mask, env_a, file_a, cli_a, ftext, argv, sp = j
            c.ev()
            if obs["rc"] != 0 or not obs["env"]:
                c.violation("C12:bootstrap-failed", "start-up child failed (rc=%s): %s" % (obs["rc"], obs["stderr"]), {"argv": argv, "file": ftext, "env": env_a})
                continue
            eff = expected(env_a, file_a, cli_a)
            srcs = {}
            for st in SETTINGS:
                srcs[st] = "+".join(x for x, a in (("env", env_a), ("file", file_a), ("cli", cli_a)) if st in a) or "default"
            rp = {"kind": kind, "env": env_a, "file_text": ftext, "argv": argv, "sources": srcs, "observed": obs["env"]}
            compare(c, eff, obs, rp, "precedence" if kind != "cross" else "independence")
            if kind == "exhaustive":
                pairs.add((s, mask))
                nsrc = bin(mask).count("1")
                if nsrc >= 2:
                    c.cls(s, mask, sp)
            elif kind.startswith("spelling"):
                c.seen(kind)
                c.cls(s, kind)
            else:
                c.cls("cross", len(env_a), len(file_a), len(cli_a))
            if len(c.samples) < 4 and kind == "exhaustive" and mask == 7:
                c.sample({"setting": s, "env": env_a, "file": ftext, "argv": argv, "effective": obs["env"].get(SETTINGS[s][0])})
    if len(pairs) == 88:
        c.seen("all 88 (setting, subset) pairs")
    c.extra["exhaustive_pairs_executed"] = len(pairs)
    # ---- the literal command lines of rws.command_line
    try:
        text = open(os.path.join(build.REPO, "rws.command_line")).read()
    except OSError:
        text = ""
    for ln in text.splitlines():
        if not ln.startswith("rws "):
            continue
        argv = ln.split()[1:]
        obs = observe_a(vh, {}, None, argv)
        c.ev()
        c.seen("spelling rws.command_line")
        flagmap = {}
        for st, (envv, short, long_, _, _, _) in SETTINGS.items():
            flagmap["-" + short] = st
            flagmap["--" + long_] = st
        for a in argv:
            k, _, v = a.partition("=")
            st = flagmap.get(k)
            c.cls("documented-command-line", k)
            if st is None:
                # a documented spelling that is not in the flag table: find the setting it obviously means
                guess = flagmap.get(k.replace("_", "-"))
                c.violation("C12:documented-spelling-does-not-reach-its-setting:%s" % k, "rws.command_line documents %r but the flag table does not know it%s" % (a, " (the setting %s keeps its default)" % guess if guess else ""), {"argv": argv})
                continue
            got = obs["env"].get(SETTINGS[st][0])
            if got is None or norm(st, got) != norm(st, v):
                c.violation("C12:documented-spelling-does-not-reach-its-setting:%s" % k, "documented %r leaves %s at %r" % (a, st, got), {"argv": argv})
    engine_b(c, rng)


def engine_b(c, rng):
    """what the running server uses"""
    from ..gen import tree as treegen
    t = treegen.generate(rng.fork("tree"), depth=0, n_files=3, symlinks=False, plant_secrets=False, tag="c12")
    try:
        f = sorted(k for k in t.files if len(t.files[k]) > 10)[0]
        seen_settings = set()
        plans = []
        for s in SETTINGS:
            for mask in ((3, 6, 7) if c.quick else range(1, 8)):
                plans.append((s, mask))
        if c.quick:
            plans = plans[:33]
        # nothing configured at all: the documented defaults are in force (200 workers, 10000-byte buffer, allow-all CORS)
        plans += [(s0, 0) for s0 in ("thread_count", "request_allocation_size", "cors_allow_all")]
        # always: a pool larger than 256 workers, given on the command line (the random draws above do not guarantee one)
        plans.append(("thread_count", 4, "300"))
        for plan in plans:
            s, mask = plan[0], plan[1]
            ev, fv, cv = values_for(s, rng)
            if len(plan) > 2:
                cv = plan[2]
            port = server.free_port()
            base_cli = {"port": str(port), "thread_count": "3", "ip": "127.0.0.1"}
            env_a = {s: ev} if mask & 1 else {}
            file_a = {s: fv} if mask & 2 else {}
            cli_a = {s: cv} if mask & 4 else {}
            eff = expected(env_a, file_a, cli_a)
            # the harness needs a known address: settings not under test are pinned on the command line
            pin = {k: v for k, v in base_cli.items() if k != s}
            if s == "port":
                if mask & 1:
                    env_a["port"] = str(server.free_port())
                if mask & 2:
                    file_a["port"] = str(server.free_port())
                if mask & 4:
                    cli_a["port"] = str(server.free_port())
                eff = expected(env_a, file_a, cli_a)
            if s in ("cors_allow_origins", "cors_allow_methods", "cors_allow_headers", "cors_allow_credentials", "cors_expose_headers", "cors_max_age"):
                pin["cors_allow_all"] = "false"
                if s != "cors_allow_origins":
                    pin["cors_allow_origins"] = "https://probe.example"
            cfgfile = os.path.join(t.root, "rws.config.toml")
            if os.path.exists(cfgfile):
                os.remove(cfgfile)
            if file_a:
                open(cfgfile, "w").write(toml_file(file_a, rng))
                # who may write the file is the owner's business (umask 000 containers, shared mounts): the settings in it count
                os.chmod(cfgfile, rng.choice([0o644, 0o644, 0o600, 0o666, 0o777, 0o444, 0o664]))
            argv = cli_args(dict(pin, **cli_a), rng)
            env = {SETTINGS[k][0]: v for k, v in env_a.items()}
            ip, prt = eff["ip"] if s == "ip" else "127.0.0.1", int(eff["port"]) if s == "port" else port
            threads = int(eff["thread_count"]) if s == "thread_count" else 3
            srv = server.Server(t.root, threads=threads, env=env, args=argv, use_default_args=False, port=prt, ip=ip)
            try:
                c.ev()
                c.cls("binary", s, mask)
                rp = {"setting": s, "env": env_a, "file": file_a, "argv": argv, "expected": eff[s]}
                srcs = "+".join(x for x, a in (("env", env_a), ("file", file_a), ("cli", cli_a)) if s in a) or "default"
                if not srv.started:
                    out = srv.stdout_text()
                    m = re.search(r"Setting up http://([^\s.]+(?:\.[^\s.]+)*)\.\.\.", out)
                    c.violation("C12:binary:setting=%s:sources=%s" % (s, srcs), "server did not come up on the expected %s:%s (it announces %s)" % (ip, prt, m.group(1) if m else "nothing"), rp)
                    continue
                seen_settings.add(s)
                out = srv.stdout_text()
                bad = None
                if s in ("ip", "port"):
                    if ("Setting up http://%s:%d..." % (ip, prt)) not in out:
                        bad = "start-up line does not announce %s:%d" % (ip, prt)
                    else:
                        data, end = srv.request(("GET %s HTTP/1.1\r\nHost: x\r\n\r\n" % f).encode())
                        if not data.startswith(b"HTTP/1.1 200"):
                            bad = "no answer on %s:%d" % (ip, prt)
                elif s == "thread_count":
                    m = re.search(r"Spawned (\d+) thread", out)
                    alive = srv.workers_alive()
                    if not m or int(m.group(1)) != threads or len(alive) != threads:
                        bad = "Spawned %s, census %s, expected %d" % (m.group(1) if m else None, alive, threads)
                    else:
                        # ... and every one of them serves: enough sequential requests for each worker to get a turn
                        unanswered = 0
                        nreq = 2 * threads + 40
                        for _ in range(nreq):
                            data, end = srv.request(("GET %s HTTP/1.1\r\nHost: x\r\n\r\n" % f).encode(), timeout=10)
                            if not data.startswith(b"HTTP/1.1 200"):
                                unanswered += 1
                        c.count("requests_sent_to_pools_of_configured_size", nreq)
                        if unanswered:
                            bad = "%d of %d sequential requests to a %d-worker server were not answered with 200" % (unanswered, nreq, threads)
                else:
                    def observe_runtime():
                        bad = None
                        if s == "request_allocation_size":
                            data, end = srv.request(b"POST /file-upload/initiate?name=a&lastModified=1&size=1 HTTP/1.1\r\nHost: x\r\n\r\n")
                            m = re.search(rb"request_allocation_size_in_bytes is (\d+)", data)
                            want = int(eff[s]) - 4000 if int(eff[s]) > 4000 else int(eff[s])
                            if not m or int(m.group(1)) != want:
                                bad = "buffer echo %s, expected %d" % (m.group(1) if m else None, want)
                        else:
                            origin = "https://probe.example" if s != "cors_allow_origins" else eff[s].split(",")[0]
                            overridden = [x for x in (ev, fv, cv) if x and x != eff[s]]
                            if s == "cors_allow_origins" and eff[s] == "" and overridden:
                                origin = overridden[0].split(",")[0]   # an origin of a lower-precedence source that the empty list overrides
                            if s == "cors_allow_all":
                                origin = "https://foreign.example"
                            data, end = srv.request(("OPTIONS %s HTTP/1.1\r\nHost: x\r\nOrigin: %s\r\nAccess-Control-Request-Method: TRACE\r\nAccess-Control-Request-Headers: X-Zzz\r\n\r\n" % (f, origin)).encode())
                            r = httpstrict.parse(data, head_request=True)
                            g = lambda n: r.get(n)
                            if s == "cors_allow_all":
                                echoed = g("access-control-allow-origin") == origin
                                if echoed != (eff[s] == "true"):
                                    bad = "foreign origin echoed=%s with allow-all=%s" % (echoed, eff[s])
                            elif s == "cors_allow_origins" and eff[s] == "":
                                if g("access-control-allow-origin") is not None:
                                    bad = "zero origins are configured (the empty list has the highest precedence) but %r is granted" % origin
                            elif s == "cors_allow_origins":
                                if g("access-control-allow-origin") != origin:
                                    bad = "configured origin %r not granted (%r)" % (origin, g("access-control-allow-origin"))
                                else:
                                    other = [x for x in values_for(s, rng)][0]
                            elif s == "cors_allow_methods":
                                if norm(s, g("access-control-allow-methods") or "") != norm(s, eff[s]):
                                    bad = "Allow-Methods %r, expected %r" % (g("access-control-allow-methods"), eff[s])
                            elif s == "cors_allow_headers":
                                if norm(s, (g("access-control-allow-headers") or "").lower()) != norm(s, eff[s].lower()):
                                    bad = "Allow-Headers %r, expected %r" % (g("access-control-allow-headers"), eff[s])
                            elif s == "cors_expose_headers":
                                if norm(s, (g("access-control-expose-headers") or "").lower()) != norm(s, eff[s].lower()):
                                    bad = "Expose-Headers %r, expected %r" % (g("access-control-expose-headers"), eff[s])
                            elif s == "cors_max_age":
                                if (g("access-control-max-age") or "").strip() != eff[s]:
                                    bad = "Max-Age %r, expected %r" % (g("access-control-max-age"), eff[s])
                            elif s == "cors_allow_credentials":
                                has = (g("access-control-allow-credentials") or "").lower() == "true"
                                if has != (eff[s] == "true"):
                                    bad = "credentials header present=%s with setting %r" % (has, eff[s])

                        return bad
                    bad = observe_runtime()
                    after_touch = False
                    if bad is None and os.path.exists(cfgfile):
                        # the owner touches the configuration file while the server runs (same settings, new comment, newer
                        # mtime): the command line still wins and nothing else changes
                        with open(cfgfile, "a") as fh:
                            fh.write("\n# edited while the server runs\n")
                        st = os.stat(cfgfile)
                        os.utime(cfgfile, (st.st_atime + 7, st.st_mtime + 7))
                        srv.request(("GET %s HTTP/1.1\r\nHost: x\r\n\r\n" % f).encode())
                        bad = observe_runtime()
                        after_touch = True
                        c.count("observed_again_after_touching_the_config_file")
                        if bad:
                            srcs = srcs + ":after-config-file-touch"
                if bad:
                    c.violation("C12:binary:setting=%s:sources=%s" % (s, srcs), "running server does not use the expected %s=%r: %s" % (s, eff[s], bad), rp)
            finally:
                srv.cleanup()
                if os.path.exists(cfgfile):
                    os.remove(cfgfile)
        # a configuration file with keys the documentation does not know - spelled like the ways other tools include, extend or
        # source further files, every one of them naming this very file: they are ignored, the documented keys still apply
        cfgfile = os.path.join(t.root, "rws.config.toml")
        words = ["include", "includes", "import", "imports", "extends", "extend", "inherit", "inherits", "base", "parent", "source", "load", "use", "config", "config_file", "file", "path", "template", "profile", "defaults", "overrides"]
        body = "".join('%s = "rws.config.toml"\n' % w for w in words[:11]) + "".join('%s = ["rws.config.toml", "./rws.config.toml"]\n' % w for w in words[11:]) + 'note = "${VF_LEGACY_WORD} and ${HOME} and $USER and %PATH% and ~/x"\ncomment = "$(hostname) `id`"\n' + "thread_count = 3\n\n[cors]\nallow_all = false\nallow_origins = [\"https://self.example\"]\n" + "".join('%s = "rws.config.toml"\n' % w for w in words[:6])
        open(cfgfile, "w").write(body)
        prt = server.free_port()
        srv = server.Server(t.root, threads=3, args=["--ip=127.0.0.1", "--port=%d" % prt], use_default_args=False, port=prt)
        try:
            c.ev()
            c.cls("binary", "self-referential-config", 2)
            ok = False
            if srv.started:
                data, end = srv.request(("GET %s HTTP/1.1\r\nHost: x\r\nOrigin: https://self.example\r\n\r\n" % f).encode())
                r = httpstrict.parse(data)
                ok = r.status == 200 and r.get("access-control-allow-origin") == "https://self.example" and len(srv.workers_alive()) == 3
            if not ok:
                c.violation("C12:binary:config-file-with-unknown-self-referential-keys", "a config file whose unknown keys (include / import / extends / source ...) name the file itself: the server %s" % ("did not come up (exit status %s)" % srv.proc.poll() if not srv.started else "came up but does not use the documented keys of the file"),
                            {"config": body[:600], "log_tail": srv.stderr_text()[-300:]})
        finally:
            srv.cleanup()
            if os.path.exists(cfgfile):
                os.remove(cfgfile)
        if len(seen_settings) == len(SETTINGS):
            c.seen("real-binary start per setting")
        c.extra["settings_observed_on_the_real_binary"] = sorted(seen_settings)
    finally:
        t.cleanup()

"""C10 - Every response carries the hardening and no-cache headers (DESIGN.md section 4, C10)."""
import os, re
from .. import core, serve, fetch, server, httpstrict, oracles
from ..gen import tree as treegen, req as reqgen
from . import c04

CACHE_SET = {"no-store", "no-cache", "private", "max-age=0", "must-revalidate", "proxy-revalidate"}


def check_headers(r):
    """returns list of (header, problem)"""
    bad = []

    def one(name):
        l = r.get_all(name)
        if len(l) == 0:
            bad.append((name, "missing"))
            return None
        if len(l) > 1:
            bad.append((name, "duplicated"))
        return l[0].strip()
    v = one("x-content-type-options")
    if v is not None and v.lower() != "nosniff":
        bad.append(("x-content-type-options", "value"))
    v = one("x-frame-options")
    if v is not None and v.upper() != "SAMEORIGIN":
        bad.append(("x-frame-options", "value"))
    v = one("cache-control")
    if v is not None and set(x.strip().lower() for x in v.split(",")) != CACHE_SET:
        bad.append(("cache-control", "value"))
    v = one("accept-ranges")
    if v is not None and v.lower() != "bytes":
        bad.append(("accept-ranges", "value"))
    v = one("accept-ch")
    if v is not None and not [x for x in v.split(",") if x.strip()]:
        bad.append(("accept-ch", "empty"))
    v = one("vary")
    if v is not None and "origin" not in [x.strip().lower() for x in v.split(",")]:
        bad.append(("vary", "without-origin"))
    return bad


def first_requests_race(c, t, rng, judge, f):
    """the very first requests of a fresh process arrive on all workers at the same instant (state that is built lazily on
    first use is built under contention), then one more request follows sequentially"""
    import os, socket, struct, time, threading
    starts = 10 if c.quick else 80
    w = 8
    c.need("fresh-server simultaneous first requests")
    for k in range(starts):
        srv = server.Server(t.root, threads=w)
        if not srv.started:
            srv.cleanup()
            c.inconc("server did not start")
            continue
        try:
            raw = ("GET %s HTTP/1.1\r\nHost: x\r\nOrigin: https://a.example\r\n\r\n" % f).encode()
            socks = [srv.connect(timeout=10) for _ in range(w)]
            time.sleep(0.05)   # every worker is now blocked in read()
            go = time.monotonic() + 0.05
            res = [b""] * w

            def fire(i):
                while time.monotonic() < go:
                    pass
                try:
                    socks[i].sendall(raw)
                    buf = b""
                    while True:
                        ch = socks[i].recv(65536)
                        if not ch:
                            break
                        buf += ch
                    res[i] = buf
                except OSError:
                    pass
            # forked senders spinning on the clock: threads would be serialised by the interpreter lock
            d = core.scratch("race-")
            pids = []
            for i in range(w):
                pid = os.fork()
                if pid == 0:
                    try:
                        fire(i)
                        with open(os.path.join(d, "r%d" % i), "wb") as fh:
                            fh.write(res[i])
                    finally:
                        os._exit(0)
                pids.append(pid)
            for pid in pids:
                try:
                    os.waitpid(pid, 0)
                except OSError:
                    pass
            for i in range(w):
                try:
                    res[i] = open(os.path.join(d, "r%d" % i), "rb").read()
                except OSError:
                    res[i] = b""
            import shutil
            shutil.rmtree(d, ignore_errors=True)
            for s in socks:
                try:
                    s.close()
                except OSError:
                    pass
            label = {"route": "first-requests-race", "el": "none", "kind": "valid"}
            for data in res:
                judge(raw, label, data, "binary", None)
            data, end = srv.request(raw)
            judge(raw, label, data, "binary", None)
            c.seen("fresh-server simultaneous first requests")
        finally:
            srv.cleanup()


def route_of(label, raw):
    return label.get("route", "?")


def run(c):
    c.rule = ("the C04 input space (valid requests for every route x single-position mutations, garbage, oversized input, ErrApp / OkApp handlers, read errors) on both entry points and the real binary; "
              "every complete response must carry X-Content-Type-Options: nosniff, X-Frame-Options: SAMEORIGIN, the six-directive Cache-Control set, Accept-Ranges: bytes, a non-empty Accept-CH and a Vary naming Origin, "
              "each exactly once. Class = (status, route, entry point); non-trivial = status != 200 or route != static.")
    rng = c.rng
    t = treegen.generate(rng.fork("tree"), depth=2, tag="c10")
    reach = [200, 204, 206, 400, 404, 416]
    for st in (200, 206, 400, 404, 416):
        c.need("status %d on process" % st)
    for st in (200, 400, 404):
        c.need("status %d on legacy" % st)
    c.need("engine B responses")
    c.extra["statuses_declared_unreachable"] = {"500": "the sandbox runs as root, an unreadable file cannot be staged", "501": "NotFoundController matches every request, the 501 default is dead code",
                                                 "204": "OPTIONS on static files is answered 404 by the production matcher until C09's defect is repaired (then 204 is observed and counted)"}
    try:
        inputs = c04.build_inputs(c, t, rng)
        # explicit 416 / 206 / OPTIONS / HEAD requests
        f = sorted(k for k in t.files if len(t.files[k]) > 50)[0]
        for label, raw in [("416", ("GET %s HTTP/1.1\r\nHost: x\r\nRange: bytes=999999999-\r\n\r\n" % f).encode()), ("416", ("GET %s HTTP/1.1\r\nHost: x\r\nRange: bytes=5-2\r\n\r\n" % f).encode()),
                           ("206", ("GET %s HTTP/1.1\r\nHost: x\r\nRange: bytes=1-5\r\n\r\n" % f).encode()), ("206m", ("GET %s HTTP/1.1\r\nHost: x\r\nRange: bytes=1-5,7-9\r\n\r\n" % f).encode()),
                           ("options", ("OPTIONS %s HTTP/1.1\r\nHost: x\r\nOrigin: https://a.example\r\nAccess-Control-Request-Method: PUT\r\n\r\n" % f).encode()), ("head", ("HEAD %s HTTP/1.1\r\nHost: x\r\n\r\n" % f).encode())]:
            inputs.append(({"route": "explicit-" + label, "el": "none", "kind": "valid"}, raw))
        observed = {}

        def judge(raw, label, resp_bytes, entry, method_hint):
            if not resp_bytes:
                return
            klass, method, _, _ = oracles.request_line(raw)
            r = httpstrict.parse(resp_bytes, head_request=oracles.expects_no_body(raw, resp_bytes))
            if not r.status:
                return
            c.ev()
            route = label["route"]
            if r.status != 200 or not route.startswith("static"):
                c.cls(r.status, route, entry)
            observed.setdefault(entry, set()).add(r.status)
            c.count("%s_status_%d" % (entry, r.status))
            bad = check_headers(r)
            for name, prob in bad:
                c.violation("C10:%s:%s:status=%d:%s" % (name, prob, r.status, "production" if entry != "legacy" else "legacy"),
                            "response %d to %r (%s, route %s) has header %s %s" % (r.status, raw[:60], entry, route, name, prob),
                            {"request_b64": fetch.b64(raw), "entry": entry, "response_head": resp_bytes[:800].decode("latin-1")})
            if len(c.samples) < 6 and r.status not in (200,) and c.evaluations % 131 == 0:
                c.sample({"entry": entry, "status": r.status, "route": route, "request_prefix": raw[:50].decode("latin-1"), "vary": r.get("vary"), "cache_control": r.get("cache-control")})

        for entry in ("process", "legacy"):
            cases, meta = [], {}
            for i, (label, raw) in enumerate(inputs):
                if "bufsize" in label:
                    continue
                variants = [("app", "ok")]
                if entry == "process" and i % 9 == 0:
                    variants += [("err", "ok"), ("ok", "ok")]
                if i % 40 == 0:
                    variants.append(("app", "err"))   # read error -> 400 path
                for h, rd in variants:
                    cid = "%s-%d-%s-%s" % (entry, i, h, rd)
                    cases.append(serve.case(cid, raw, entry=entry, handler=h, read=rd))
                    meta[cid] = (label, raw)
            obs = core.run_cases(cases, cwd=t.root)
            for cid, (label, raw) in meta.items():
                o = obs.get(cid)
                if o is None or o.outcome == "missing":
                    c.inconc("no observation")
                    continue
                sv = serve.Served(o)
                judge(raw, label, sv.accepted, entry, None)
        for entry, sts in observed.items():
            for st in sts:
                c.seen("status %d on %s" % (st, entry))
        # Engine B
        srv = server.Server(t.root, threads=4)
        try:
            if srv.started:
                small = [x for x in inputs if "bufsize" not in x[0] and len(x[1]) <= 10000]
                pick = [small[i] for i in sorted(rng.sample(range(len(small)), min(400 if c.quick else 6000, len(small))))] + inputs[-6:]

                def restart(old):
                    old.cleanup()
                    s = server.Server(t.root, threads=4)
                    return s if s.started else None
                rs, srv = fetch.binary(srv, [x[1] for x in pick], restart=restart, threads=4)
                for (label, raw), r in zip(pick, rs):
                    if r.response:
                        c.seen("engine B responses")
                    judge(raw, label, r.response, "binary", None)
            else:
                c.inconc("server did not start")
        finally:
            if srv:
                srv.cleanup()
        # the same monitor under configured (restricted) cross-origin policies: two origins, exactly one origin, none
        for origins_cfg in ("https://a.example,https://b.example", "https://a.example", ""):
          cors_env = {"RWS_CONFIG_CORS_ALLOW_ALL": "false", "RWS_CONFIG_CORS_ALLOW_ORIGINS": origins_cfg, "RWS_CONFIG_CORS_ALLOW_METHODS": "GET,PUT",
                      "RWS_CONFIG_CORS_ALLOW_HEADERS": "content-type", "RWS_CONFIG_CORS_EXPOSE_HEADERS": "etag", "RWS_CONFIG_CORS_MAX_AGE": "600", "RWS_CONFIG_CORS_ALLOW_CREDENTIALS": "true"}
          restricted_pass(c, t, inputs, f, cors_env, judge)
        c.extra["statuses_observed"] = {k: sorted(v) for k, v in observed.items()}
        first_requests_race(c, t, rng, judge, f)
    finally:
        t.cleanup()


def restricted_pass(c, t, inputs, f, cors_env, judge):
    if True:
        extra = []
        for m in ("GET", "HEAD", "OPTIONS", "POST"):
            for origin in ("https://a.example", "https://b.example", "https://evil.example", None):
                for pre in (False, True):
                    for path in (f, "/nope", "/"):
                        hs = "Host: x\r\n" + ("Origin: %s\r\n" % origin if origin else "") + ("Access-Control-Request-Method: PUT\r\nAccess-Control-Request-Headers: content-type\r\n" if pre else "")
                        extra.append(({"route": "restricted-cors", "el": "none", "kind": "valid"}, ("%s %s HTTP/1.1\r\n%s\r\n" % (m, path, hs)).encode()))
        sample = [x for x in inputs if "bufsize" not in x[0]][::9][:300] + extra
        for entry in ("process", "legacy"):
            cases = [serve.case("r%d" % i, raw, entry=entry) for i, (label, raw) in enumerate(sample)]
            obs = core.run_cases(cases, cwd=t.root, env=cors_env)
            for i, (label, raw) in enumerate(sample):
                o = obs.get("r%d" % i)
                if o is not None and o.outcome != "missing":
                    judge(raw, dict(label, route=label["route"] + "+restricted-cors"), serve.Served(o).accepted, entry, None)
        srv2 = server.Server(t.root, threads=2, env=cors_env)
        try:
            if srv2.started:
                for label, raw in extra:
                    data, end = srv2.request(raw)
                    judge(raw, dict(label, route="restricted-cors"), data, "binary", None)
            else:
                c.inconc("server with a restricted policy did not start")
        finally:
            srv2.cleanup()

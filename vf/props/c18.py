"""C18 - Base64 conforms to RFC 4648 and round-trips (DESIGN.md section 4, C18)."""
import base64, subprocess, os
from .. import core, build

ALPHABET = "ABCDEFGHIJKLMNOPQRSTUVWXYZabcdefghijklmnopqrstuvwxyz0123456789+/"
BAD_ASCII = [chr(c) for c in range(0, 128) if chr(c) not in ALPHABET and chr(c) != "="]
BAD_NONASCII = ["Ł", "š", "é", "А", "中", "\U0001F600", "K", "Ａ", "Ā", "Ɂ"]


def sweep(c, lane, stride, offset):
    vh = build.harness(lane)
    p = subprocess.run([vh, "b64", "sweep", str(stride), str(offset), "16"], stdout=subprocess.PIPE, stderr=subprocess.DEVNULL, timeout=3600)
    out = p.stdout.decode("utf-8", "replace")
    groups = mism = None
    for ln in out.splitlines():
        w = ln.split()
        if ln.startswith("SWEEP"):
            kv = dict(x.split("=") for x in w[1:])
            groups, mism = int(kv["groups"]), int(kv["mismatches"])
        elif ln.startswith("MISMATCH"):
            what, inp, got, want = w[1], w[2], w[3], w[4]
            data = b"" if inp == "-" else bytes.fromhex(inp)
            kind = "panic" if got == "PANIC" else ("err" if got.startswith("Err(") else "wrong")
            c.violation("C18:%s:%s:len=%d:lane=%s" % (what, kind, len(data), lane),
                        "%s of %r gives %s, RFC 4648 reference gives %s" % (what, data, got, want),
                        {"input_hex": inp, "got": got, "want": want, "lane": lane})
        elif ln.startswith("SAMPLE"):
            data = bytes.fromhex(w[1])
            c.count("sweep_samples_crosschecked_with_python_base64")
            if base64.b64encode(data).decode() != w[2]:
                c.violation("C18:encode:wrong:len=3:lane=%s" % lane, "encode(%r) = %s, Python base64 gives %s" % (data, w[2], base64.b64encode(data).decode()), {"input_hex": w[1]})
    if p.returncode != 0 or groups is None:
        c.inconc("sweep process failed in lane %s (rc=%s)" % (lane, p.returncode))
        return 0
    c.ev(groups)
    c.count("sweep_groups_" + lane, groups)
    return groups


def run(c):
    c.rule = ("inputs: every byte string of length 0..2 and (quick) a seeded 1/16 stride or (thorough) all of the 16,777,216 three-byte groups, "
              "checked against a table-free reference encoder and decoded back; random strings of every length residue up to 64 KiB checked against "
              "Python's base64 (round trip) and up to 1 MiB / 4 MiB (encoder only); single-character corruptions of valid text must be rejected. A class = (operation, length mod 3, length class, lane) "
              "or (corruption position class, replacement class); non-trivial = everything except the empty input.")
    c.assumptions += ["Python's base64 module and the harness's arithmetic reference encoder implement RFC 4648 section 4"]
    lanes = ["rel", "chk"]
    rng = c.rng
    stride = 16 if c.quick else 1
    total = 0
    for lane in lanes:
        g = sweep(c, lane, stride, (c.seed + (7 if lane == "chk" else 0)) % stride)
        total += g
        for r in range(3):
            c.cls("sweep", r + 1, lane)
    c.extra["exhaustive"] = (not c.quick)
    c.extra["three_byte_groups_per_lane"] = (1 << 24) // stride
    # random strings
    n_rand = 300 if c.quick else 5000
    cases, meta = [], {}
    lens = []
    for i in range(n_rand):
        r = i % 3
        cap = 4096 if (c.quick or i % 10) else 20000
        L = 4 + rng.below(cap)
        L += (r - L % 3) % 3
        lens.append(L)
    lens += [65536, 65535, 65534] if c.quick else [65536, 65535, 65534, 65533, 65532, 65531]
    for i, L in enumerate(lens):
        kind = i % 4
        data = rng.bytes(L) if kind < 2 else (bytes([0xff]) * L if kind == 2 else bytes([rng.below(4) * 85]) * L)
        cid = "r%d" % i
        cases.append(core.Case(cid, "b64.roundtrip", [data]))
        meta[cid] = data
    seen_chars = set()
    for lane in lanes:
        obs = core.run_cases(cases, lane=lane, per_case_timeout=60, poison="b64")
        for cs in cases:
            o = obs.get(cs.id)
            data = meta[cs.id]
            c.ev()
            lc = "big" if len(data) > 60000 else ("mid" if len(data) > 1000 else "small")
            c.cls("random", len(data) % 3, lc, lane)
            c.seen("length mod 3 == %d" % (len(data) % 3))
            if o is None or o.outcome in ("missing",):
                c.inconc("no observation for %s" % cs.id)
                continue
            if o.outcome in ("panic", "died", "timeout"):
                c.crash("Base64::encode/decode", o, cs)
                continue
            if o.outcome == "err":
                c.violation("C18:encode:err:len_mod3=%d" % (len(data) % 3), "encode returned Err(%s) for %d bytes" % (o.err, len(data)), {"input_b64": base64.b64encode(data).decode()})
                continue
            enc = o.s(0)
            seen_chars.update(enc)
            want = base64.b64encode(data).decode()
            if enc != want:
                i0 = next((k for k in range(min(len(enc), len(want))) if enc[k] != want[k]), min(len(enc), len(want)))
                c.violation("C18:encode:wrong:len_mod3=%d:lane=%s" % (len(data) % 3, lane), "encode differs from RFC 4648 at text offset %d (input %d bytes)" % (i0, len(data)), {"input_b64": want, "got": enc[:200]})
            if o.s(1) != "ok":
                c.violation("C18:decode:err-on-valid:len_mod3=%d" % (len(data) % 3), "decode(encode(x)) returned Err(%s)" % o.s(2), {"input_b64": want})
            elif o.fields[2] != data:
                c.violation("C18:decode:wrong:len_mod3=%d:lane=%s" % (len(data) % 3, lane), "decode(encode(x)) != x for %d bytes" % len(data), {"input_b64": want})
            if len(c.samples) < 4:
                c.sample({"kind": "roundtrip", "lane": lane, "input_hex": data[:24].hex(), "len": len(data), "encoded_prefix": enc[:32]})
    # large inputs, encoder only (the decoder is quadratic): lengths around every power of two and typical block sizes up
    # to 1 MiB (4 MiB thorough), every length residue, compared with Python's base64 - padding may only appear at the end
    big_lens = []
    for k in range(12, 21 if c.quick else 23):
        for d in (-2, -1, 0, 1, 2, 3):
            big_lens.append((1 << k) + d)
    big_lens += [3 * 1024 * 57 + d for d in (0, 1, 2)] + [100000, 100001, 100002, 65536 * 3 + 1, 65536 * 5 + 2] + [rng.range(70000, 900000) for _ in range(6 if c.quick else 60)]
    bcases, bmeta = [], {}
    for i, L in enumerate(big_lens):
        data = rng.bytes(L)
        cid = "big%d" % i
        bcases.append(core.Case(cid, "b64.encode", [data]))
        bmeta[cid] = data
    c.need("encoder output checked for an input above 64 KiB")
    for lane in lanes + ["one-cpu"]:
        # third pass: the same inputs in processes that see a single CPU (container quota, taskset)
        largest = sorted(bcases, key=lambda x: len(bmeta[x.id]))[-10:]
        obs = core.run_cases(largest if lane == "one-cpu" else bcases, lane="rel" if lane == "one-cpu" else lane, per_case_timeout=120, env={"VF_ONE_CPU": "1"} if lane == "one-cpu" else None)
        for cs in (largest if lane == "one-cpu" else bcases):
            o = obs.get(cs.id)
            data = bmeta[cs.id]
            c.ev()
            c.cls("large-encode", len(data) % 3, len(data).bit_length(), lane)
            if o is None or o.outcome == "missing":
                c.inconc("no observation for %s" % cs.id)
                continue
            if o.outcome in ("panic", "died", "timeout"):
                c.crash("Base64::encode", o, cs)
                continue
            if o.outcome == "err":
                c.violation("C18:encode:err:len_mod3=%d" % (len(data) % 3), "encode returned Err(%s) for %d bytes" % (o.err, len(data)), {"input_len": len(data)})
                continue
            enc = o.s(0)
            if len(data) > 65536:
                c.seen("encoder output checked for an input above 64 KiB")
            want = base64.b64encode(data).decode()
            if enc != want:
                i0 = next((k for k in range(min(len(enc), len(want))) if enc[k] != want[k]), min(len(enc), len(want)))
                c.violation("C18:encode:wrong:large:%s:lane=%s" % ("padding-inside-text" if "=" in enc.rstrip("=") else "text", lane),
                            "encode of %d bytes differs from RFC 4648 at text offset %d (got %r, want %r)" % (len(data), i0, enc[i0:i0 + 12], want[i0:i0 + 12]), {"input_len": len(data), "seed": c.seed, "offset": i0})
    # concurrent FIRST use: fresh processes in which 8 threads start encoding / decoding at the same instant
    c.need("cold concurrent first use")
    vecs = [b"", b"f", b"fo", b"foo", b"foob", b"fooba", b"foobar", bytes(range(256)), rng.bytes(100), b"\xff" * 7, base64.b64decode(ALPHABET * 2)]
    ccases = [core.Case("v%d" % i, "b64.roundtrip", [v]) for i, v in enumerate(vecs)]
    trials = core.cold_race(ccases, trials=60 if c.quick else 1500, threads=8)
    for ti, tr in enumerate(trials):
        if tr is None:
            c.inconc("cold-race process did not finish")
            continue
        for th, res in tr.items():
            for i, v in enumerate(vecs):
                c.ev()
                got = res.get("v%d" % i)
                c.seen("cold concurrent first use")
                if got is None:
                    c.inconc("cold-race result missing")
                    continue
                outcome, f = got
                want = base64.b64encode(v)
                ok = outcome == "ok" and len(f) >= 3 and f[0] == want and f[1] == b"ok" and f[2] == v
                if not ok:
                    what = "panic" if outcome == "panic" else ("err" if outcome == "err" or (len(f) > 1 and f[1] != b"ok") else ("encode-wrong" if (f and f[0] != want) else "decode-wrong"))
                    c.violation("C18:cold-concurrent-first-use:%s" % what, "in a fresh process with 8 threads starting at once, thread %s got %s for %r (want %r): %r" % (th, outcome, v[:16], want[:24], [x[:24] for x in f[:3]]), {"input_hex": v.hex(), "trial": ti})
        c.cls("cold-race", ti % 4)
    for ch in ALPHABET:
        c.need("alphabet character %r seen in encoder output" % ch)
        if ch in seen_chars:
            c.seen("alphabet character %r seen in encoder output" % ch)
    for r in range(3):
        c.need("length mod 3 == %d" % r)
    # decoder corruptions
    n_corr = 20000 if c.quick else 400000
    cases, meta = [], {}
    i = 0
    while len(cases) < n_corr:
        L = rng.choice([1, 2, 3, 4, 5, 6, 7, 9, 10, 30, 31, 32, 100])
        data = rng.bytes(L)
        text = base64.b64encode(data).decode()
        pad = len(text) - len(text.rstrip("="))
        positions = list(range(len(text)))
        for pos in positions:
            if len(cases) >= n_corr:
                break
            if rng.chance(1, 3) and pos not in (0, len(text) - 1):
                continue
            bad = rng.choice(BAD_ASCII) if rng.chance(4, 5) else rng.choice(BAD_NONASCII)
            t2 = text[:pos] + bad + text[pos + 1:]
            cid = "c%d" % i
            i += 1
            posc = "first" if pos == 0 else ("last" if pos == len(text) - 1 else ("padding" if pos >= len(text) - pad else "middle"))
            repc = "nonascii" if ord(bad) > 127 else ("control" if ord(bad) < 32 else ("urlsafe" if bad in "-_" else "punct"))
            cases.append(core.Case(cid, "b64.decode", [t2.encode("utf-8")]))
            meta[cid] = (t2, posc, repc, bad)
    # the same for the ways mail and PEM tools wrap Base64: a separator after every w characters (w = 4 .. 80)
    for L in (57, 114, 120, 171, 300):
        text = base64.b64encode(rng.bytes(L)).decode()
        for sep in ("\r\n", "\n", "\r", " ", "\t"):
            for w in (4, 16, 60, 64, 72, 76, 80):
                if w >= len(text):
                    continue
                t2 = sep.join(text[k:k + w] for k in range(0, len(text), w))
                for variant in (t2, t2 + sep):
                    cid = "c%d" % i
                    i += 1
                    cases.append(core.Case(cid, "b64.decode", [variant.encode("utf-8")]))
                    meta[cid] = (variant, "wrapped-every-%d" % w, "control" if sep.strip() == "" and sep != " " else "punct", sep)
    for lane in lanes:
        obs = core.run_cases(cases, lane=lane)
        for cs in cases:
            o = obs.get(cs.id)
            t2, posc, repc, bad = meta[cs.id]
            c.ev()
            c.cls("corrupt", posc, repc)
            c.seen("corruption at %s position" % posc)
            if o is None or o.outcome == "missing":
                c.inconc("no observation for %s" % cs.id)
            elif o.outcome in ("panic", "died", "timeout"):
                c.crash("Base64::decode", o, cs)
            elif o.outcome == "ok":
                c.violation("C18:decode:accepts-outside-alphabet:%s" % repc, "decode(%r) returned Ok although %r is outside the Base64 alphabet" % (t2, bad), {"text": t2, "lane": lane})
            else:
                c.count("corruptions_rejected")
            if posc == "first" and len(c.samples) < 8:
                c.sample({"kind": "corruption", "text": t2, "outcome": o.outcome if o else None})
    for p in ("first", "last"):
        c.need("corruption at %s position" % p)

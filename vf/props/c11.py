"""C11 - Cross-origin grants follow the configuration exactly (DESIGN.md section 4, C11)."""
import os, base64
from .. import core, serve, server, httpstrict
from ..gen import tree as treegen

METHODS = ["GET", "HEAD", "POST", "PUT", "DELETE", "CONNECT", "OPTIONS", "TRACE", "PATCH"]
ORIGIN_POOL = ["https://foo.example", "https://bar.example", "http://foo.example", "https://foo.example:8443", "https://foo.example.org", "https://a.b.c.example", "http://localhost:3000", "https://xn--e1afmkfd.example"]
AC = ["access-control-allow-origin", "access-control-allow-credentials", "access-control-allow-methods", "access-control-allow-headers", "access-control-max-age", "access-control-expose-headers"]


def gen_config(rng, i):
    sw = ["false", "false", "false", "true", None, "garbage"][i % 6]
    k = [0, 1, 2, 3, 4][(i // 6) % 5]
    origins = rng.sample(ORIGIN_POOL, k)
    if k >= 2 and rng.chance(1, 2):
        origins[1] = origins[0] + rng.choice([".org", ":8443", "x"])   # one origin is a prefix of another
    return {
        "switch": sw, "origins": origins,
        "methods": rng.sample(["GET", "POST", "PUT", "DELETE", "PATCH"], rng.range(0, 4)),
        "headers": rng.sample(["content-type", "x-custom-header", "authorization", "x-a"], rng.range(0, 3)),
        "expose": rng.sample(["content-type", "x-custom-header", "etag"], rng.range(0, 2)),
        "credentials": rng.choice(["true", "false", None]),
        "max_age": rng.choice(["86400", "600", "0", "1", "-1", "1h", "", "3600s", "+5"]),
    }


def env_of(cfg):
    e = {"RWS_CONFIG_CORS_ALLOW_ORIGINS": ",".join(cfg["origins"]), "RWS_CONFIG_CORS_ALLOW_METHODS": ",".join(cfg["methods"]), "RWS_CONFIG_CORS_ALLOW_HEADERS": ",".join(cfg["headers"]),
         "RWS_CONFIG_CORS_EXPOSE_HEADERS": ",".join(cfg["expose"]), "RWS_CONFIG_CORS_MAX_AGE": cfg["max_age"]}
    if cfg["switch"] is not None:
        e["RWS_CONFIG_CORS_ALLOW_ALL"] = cfg["switch"]
    if cfg["credentials"] is not None:
        e["RWS_CONFIG_CORS_ALLOW_CREDENTIALS"] = cfg["credentials"]
    return e


def origins_for(cfg, rng):
    """(relation, origin value or None)"""
    out = [("absent", None), ("empty", ""), ("unrelated", "https://evil.example"), ("unrelated", "null")]
    for o in cfg["origins"]:
        out.append(("configured", o))
        out.append(("prefix", o[: rng.range(1, len(o) - 1)]))
        out.append(("prefix", o[:-1]))
        out.append(("suffix", o[rng.range(1, len(o) - 1):]))
        a = rng.range(1, len(o) - 2)
        out.append(("interior", o[a: rng.range(a + 1, len(o) - 1)]))
        out.append(("interior", "foo.example" if "foo.example" in o else o[3:-3]))
        out.append(("case-variant", o.upper()))
        out.append(("case-variant", o[:8] + o[8:].title()))
        out.append(("extended", o + "/"))
        out.append(("extended", o + "."))
        out.append(("extended", o + ":444"))
        out.append(("extended", o + ".evil.example"))
        out.append(("extended", "x" + o))
        # spellings a URL library would call "the same origin": the property asks for exact equality with a configured value
        dp = ":443" if o.startswith("https://") else (":80" if o.startswith("http://") else ":0")
        out.append(("equivalent-spelling", o + dp))
        out.append(("equivalent-spelling", o.replace("://", "://user@", 1)))
        out.append(("equivalent-spelling", o.replace("://", "://www.", 1)))
        out.append(("equivalent-spelling", o.replace("https://", "http://", 1) if o.startswith("https://") else o.replace("http://", "https://", 1)))
        out.append(("equivalent-spelling", o.split("://", 1)[0].upper() + "://" + o.split("://", 1)[-1] if "://" in o else o.swapcase()))
        out.append(("equivalent-spelling", o + "?"))
        out.append(("equivalent-spelling", o + "#"))
        out.append(("equivalent-spelling", o.replace(".", "%2E", 1)))
        if o.rsplit(":", 1)[-1].isdigit():
            out.append(("equivalent-spelling", o.rsplit(":", 1)[0]))
    # long origins (lengths around powers of two that fit into one read): echoed exactly with the switch on, refused with it off
    for k in (7, 8, 10, 12, 13):
        for d in (-1, 0, 1):
            out.append(("long", "https://" + "o" * ((1 << k) + d) + ".example"))
    if len(cfg["origins"]) >= 2:
        out.append(("joined-list", cfg["origins"][0] + "," + cfg["origins"][1]))
        out.append(("joined-list", ",".join(cfg["origins"])))
        out.append(("interior", "," + cfg["origins"][1][:5]))
    # an origin that equals a configured one after the model's own trimming is a configured one
    seen, res = set(), []
    for rel, o in out:
        if o in seen:
            continue
        seen.add(o)
        if o is not None and o in cfg["origins"]:
            rel = "configured"
        res.append((rel, o))
    return res


def model(cfg, method, origin, acr_method, acr_headers):
    """returns (required: {header: checker}, forbid_all: bool) for well-defined configurations; None when unspecified"""
    sw = cfg["switch"]
    if sw == "garbage":
        return None
    on = sw in ("true", None)
    if origin is None:
        return {"forbid_all": True}
    if on:
        return {"forbid_all": False, "allow_origin": origin, "credentials": "true"}
    if origin not in cfg["origins"]:
        return {"forbid_all": True}
    req = {"forbid_all": False, "allow_origin": origin, "credentials": "true" if cfg["credentials"] == "true" else None}
    if method == "OPTIONS":
        req.update({"methods": set(cfg["methods"]), "headers": set(h.lower() for h in cfg["headers"]), "max_age": cfg["max_age"], "expose": set(h.lower() for h in cfg["expose"])})
    return req


def split_set(v, lower=False):
    return set((x.strip().lower() if lower else x.strip()) for x in (v or "").split(",") if x.strip())


def judge(c, cfg, method, rel, origin, shape, headers, via, rp):
    """headers: list of (name, value) of the response / of Cors::get_headers"""
    got = {}
    dup = False
    for k, v in headers:
        kl = k.lower()
        if kl in AC or kl.startswith("access-control-") or kl in ("timing-allow-origin", "cross-origin-resource-policy"):
            # every access-control-* response header is a cross-origin grant, also ones newer than the six classic names
            if kl in got:
                dup = True
            got[kl] = v
    m = model(cfg, method, origin, None, None)
    sw = "on" if cfg["switch"] in ("true", None) else ("garbage" if cfg["switch"] == "garbage" else "off")
    if m is None:
        c.count("configurations with an unparsable switch value (not judged)")
        return
    if m["forbid_all"]:
        if got:
            c.violation("C11:grant:switch=%s:origin=%s" % (sw, rel), "%s request with Origin %r (%s) received %r although the configured origins are %r" % (method, origin, rel, got, cfg["origins"]), rp)
        return
    if got.get("access-control-allow-origin") != m["allow_origin"]:
        c.violation("C11:missing-or-wrong-allow-origin:switch=%s:origin=%s" % (sw, rel), "Origin %r should be granted, Access-Control-Allow-Origin is %r" % (origin, got.get("access-control-allow-origin")), rp)
        return
    cred = got.get("access-control-allow-credentials")
    if m["credentials"] == "true" and cred != "true":
        c.violation("C11:credentials-missing:switch=%s" % sw, "credentials should be allowed, header is %r" % cred, rp)
    if m["credentials"] is None and cred is not None and cred.lower() == "true":
        c.violation("C11:credentials-granted-although-off", "Access-Control-Allow-Credentials: %r with credentials setting %r" % (cred, cfg["credentials"]), rp)
    if "methods" in m:
        if split_set(got.get("access-control-allow-methods")) != m["methods"]:
            c.violation("C11:preflight:methods", "Access-Control-Allow-Methods %r, configured %r" % (got.get("access-control-allow-methods"), sorted(m["methods"])), rp)
        if split_set(got.get("access-control-allow-headers"), True) != m["headers"]:
            c.violation("C11:preflight:headers", "Access-Control-Allow-Headers %r, configured %r" % (got.get("access-control-allow-headers"), sorted(m["headers"])), rp)
        if (got.get("access-control-max-age") or "").strip() != m["max_age"]:
            c.violation("C11:preflight:max-age", "Access-Control-Max-Age %r, configured %r" % (got.get("access-control-max-age"), m["max_age"]), rp)
        if "access-control-expose-headers" in got and split_set(got["access-control-expose-headers"], True) != m["expose"]:
            c.violation("C11:preflight:expose", "Access-Control-Expose-Headers %r, configured %r" % (got.get("access-control-expose-headers"), sorted(m["expose"])), rp)


def run(c):
    c.rule = ("configurations (switch on / off / unset / garbage, 0..4 origins incl. one being a prefix of another, method / header / expose lists, credentials true / false / unset, max-age) x Origin values (each configured one; "
              "prefixes, suffixes, interior substrings, the empty string, two configured origins joined by a comma, case variants, extended by '/', '.', a port, a suffix domain; unrelated; absent) x all nine methods and OPTIONS "
              "with / without preflight headers; observed at Cors::get_headers, at the full Server::process response (environment set before the first call in a fresh child per configuration) and on the real binary configured through "
              "environment / config file / command line. Class = (switch, origin relation, method, preflight?); non-trivial = near miss or OPTIONS.")
    rng = c.rng
    ncfg = 120 if c.quick else 4000
    for cat in ("switch on", "switch off", "origin configured", "origin prefix", "origin suffix", "origin interior", "origin empty", "origin joined-list", "origin case-variant", "origin absent", "OPTIONS with preflight", "engine B responses", "cold-start simultaneous first requests"):
        c.need(cat)
    t = treegen.generate(rng.fork("tree"), depth=0, n_files=3, symlinks=False, plant_secrets=False, tag="c11")
    try:
        f = sorted(k for k in t.files if len(t.files[k]) > 10)[0]
        for i in range(ncfg):
            cfg = gen_config(rng, i)
            env = env_of(cfg)
            cases, meta = [], {}
            for rel, origin in origins_for(cfg, rng):
                for shape in ("get", "options", "preflight", rng.choice(["post", "put", "delete", "head", "patch", "trace", "connect"])):
                    method = {"get": "GET", "options": "OPTIONS", "preflight": "OPTIONS"}.get(shape, shape.upper())
                    # the Host header is the client's business: also the authority of the Origin itself (same site, other scheme)
                    host = "localhost"
                    if origin and "://" in origin and len(origin) < 3000 and rng.chance(1, 3):   # the whole request has to fit into one read
                        host = origin.split("://", 1)[1] or "localhost"
                    elif rng.chance(1, 10):
                        host = rng.choice(["files.example", "localhost:7878", "127.0.0.1", "[::1]:8080"])
                    hs = [("Host", host)]
                    if origin is not None:
                        hs.append(("Origin", origin))
                    if shape == "preflight":
                        hs += [("Access-Control-Request-Method", "DELETE"), ("Access-Control-Request-Headers", "X-Other, content-type")]
                    if rng.chance(1, 5):
                        # what else a browser sends with cross-origin traffic
                        hs += rng.sample([("Access-Control-Request-Private-Network", "true"), ("Sec-Fetch-Mode", "cors"), ("Sec-Fetch-Site", "cross-site"), ("Sec-Fetch-Dest", "empty"), ("Referer", "https://ref.example/"),
                                          ("Cookie", "sid=1"), ("Authorization", "Bearer x"), ("Access-Control-Request-Local-Network", "true"), ("Timing-Allow-Origin", "*")], 2)
                    # field names are case-insensitive: a third of the requests spell them in lower / upper / mixed case
                    cs_ = rng.below(6)
                    if cs_ == 0:
                        hs = [(k.lower(), v) for k, v in hs]
                    elif cs_ == 1:
                        hs = [(k.upper(), v) for k, v in hs]
                    fields = [method, f, "HTTP/1.1", str(len(hs))]
                    for k, v in hs:
                        fields += [k, v]
                    fields.append(b"")
                    cid = "h%d" % len(cases)
                    cases.append(core.Case(cid, "cors.headers", fields))
                    meta[cid] = (rel, origin, shape, method, "Cors::get_headers")
                    raw = ("%s %s HTTP/1.1\r\n" % (method, f)).encode() + "".join("%s: %s\r\n" % kv for kv in hs).encode("utf-8") + b"\r\n"
                    cid = "s%d" % len(cases)
                    cases.append(serve.case(cid, raw))
                    meta[cid] = (rel, origin, shape, method, "Server::process")
            if i < (3 if c.quick else 40):
                # concurrent FIRST use under this configuration (settings read lazily / once must not be observed half-read)
                pick_cr = [cs for cs in cases if meta[cs.id][0] in ("configured", "unrelated", "absent", "extended") and len(cs.line()) < 4000][:16]
                core.cold_race_check(c, "C11", pick_cr, trials=25 if c.quick else 200, env=env, cwd=t.root,
                                     normalise=lambda op, outcome, fields: (outcome, tuple(sorted(f for f in fields if b"ccess-" in f or b"rigin" in f or f.lower().startswith(b"vary")))) if op == "cors.headers" else (outcome, tuple(sorted(l for f in fields[:2] for l in f.split(b"\r\n") if l.lower().startswith(b"access-control-")))))
            obs = core.run_cases(cases, cwd=t.root, env=env, jobs=4, shard_size=max(50, len(cases) // 2 + 1))
            for cid, (rel, origin, shape, method, via) in meta.items():
                o = obs.get(cid)
                c.ev()
                sw = "on" if cfg["switch"] in ("true", None) else ("garbage" if cfg["switch"] == "garbage" else "off")
                if rel not in ("configured", "unrelated") or method == "OPTIONS":
                    c.cls(sw, rel, method, shape == "preflight", via)
                if sw in ("on", "off"):
                    c.seen("switch " + sw)
                c.seen("origin " + rel) if ("origin " + rel) in c.must else None
                if shape == "preflight":
                    c.seen("OPTIONS with preflight")
                if o is None or o.outcome == "missing":
                    c.inconc("no observation")
                    continue
                rp = {"config": cfg, "method": method, "origin": origin, "origin_relation": rel, "shape": shape, "via": via}
                if o.outcome in ("panic", "died", "timeout"):
                    c.count("crashed cases (C04's business)")
                    continue
                if via == "Cors::get_headers":
                    n = o.n(0)
                    hl = [(o.s(1 + 2 * k), o.s(2 + 2 * k)) for k in range(n)]
                else:
                    sv = serve.Served(o)
                    r = httpstrict.parse(sv.accepted, head_request=method in ("HEAD", "OPTIONS"))
                    if not r.status:
                        continue
                    hl = r.headers
                judge(c, cfg, method, rel, origin, shape, hl, via, rp)
                if len(c.samples) < 6 and rel in ("prefix", "empty", "joined-list") and via == "Server::process" and sw == "off":
                    c.sample({"config": {k: cfg[k] for k in ("switch", "origins", "credentials")}, "origin": origin, "relation": rel, "method": method, "access_control_headers": [h for h in hl if h[0].lower() in AC]})
        engine_b(c, t, rng, f)
    finally:
        t.cleanup()


def engine_b(c, t, rng, f):
    """a server started with the configuration through each source kind"""
    for i, source in enumerate(["env", "file", "cli", "env"] if c.quick else ["env", "file", "cli"] * 8):
        cfg = gen_config(rng, 6 * i + (0 if i % 2 == 0 else 3))
        if cfg["switch"] in (None, "garbage"):
            cfg["switch"] = "false"
        if not cfg["origins"]:
            cfg["origins"] = ["https://foo.example", "https://bar.example"]
        env, args = {}, []
        cfgfile = os.path.join(t.root, "rws.config.toml")
        if os.path.exists(cfgfile):
            os.remove(cfgfile)
        if source == "env":
            env = env_of(cfg)
        elif source == "cli":
            args = ["--cors-allow-all=%s" % cfg["switch"], "--cors-allow-origins=%s" % ",".join(cfg["origins"]), "--cors-allow-methods=%s" % ",".join(cfg["methods"]), "--cors-allow-headers=%s" % ",".join(cfg["headers"]),
                    "--cors-expose-headers=%s" % ",".join(cfg["expose"]), "--cors-max-age=%s" % cfg["max_age"]] + (["--cors-allow-credentials=%s" % cfg["credentials"]] if cfg["credentials"] else [])
        else:
            q = lambda l: "[" + ", ".join('"%s"' % x for x in l) + "]"
            body = "[cors]\nallow_all = %s\nallow_origins = %s\nallow_methods = %s\nallow_headers = %s\nexpose_headers = %s\nmax_age = \"%s\"\n" % (cfg["switch"], q(cfg["origins"]), q(cfg["methods"]), q(cfg["headers"]), q(cfg["expose"]), cfg["max_age"])
            if cfg["credentials"]:
                body += "allow_credentials = %s\n" % cfg["credentials"]
            open(cfgfile, "w").write(body)
        # the very first requests of fresh servers arrive on all workers at the same instant (configuration that is read
        # lazily or "once" is read under contention): configured and foreign origins, GET and preflight
        for k in range(6 if c.quick else 40):
            cold = server.Server(t.root, threads=8, env=env, args=args)
            try:
                if not cold.started:
                    c.inconc("server did not start (config via %s)" % source)
                    break
                plan = []
                for j in range(8):
                    rel, origin = (("configured", cfg["origins"][j % len(cfg["origins"])]) if j % 2 == 0 else ("unrelated", "https://evil%d.example" % j))
                    shape = "get" if j % 4 < 2 else "preflight"
                    method = "GET" if shape == "get" else "OPTIONS"
                    hs = [("Host", "localhost"), ("Origin", origin)] + ([("Access-Control-Request-Method", "DELETE"), ("Access-Control-Request-Headers", "X-Other")] if shape == "preflight" else [])
                    plan.append((rel, origin, shape, method, ("%s %s HTTP/1.1\r\n" % (method, f)).encode() + "".join("%s: %s\r\n" % kv for kv in hs).encode("utf-8") + b"\r\n"))
                outs = server.simultaneous(cold, [p[4] for p in plan])
                for (rel, origin, shape, method, raw), data in zip(plan, outs):
                    c.ev()
                    r = httpstrict.parse(data, head_request=method == "OPTIONS")
                    if not r.status:
                        continue
                    c.cls("off", rel, method, shape == "preflight", "binary-cold-start:" + source)
                    c.seen("cold-start simultaneous first requests")
                    judge(c, cfg, method, rel, origin, shape, r.headers, "binary-cold-start:" + source, {"config": cfg, "source": source, "origin": origin, "origin_relation": rel, "method": method, "cold_start": True})
            finally:
                cold.cleanup()
        # the grants do not depend on who connects: the same policy on a dual-stack listener reached over IPv4 (the peer
        # address is then ::ffff:127.0.0.1, which the standard library does not call a loopback address)
        import socket as _so
        try:
            _t = _so.socket(_so.AF_INET6); _t.bind(("::", 0)); _t.close(); dual = True
        except OSError:
            dual = False
        for cfg_ds, env_ds, args_ds in ([(cfg, env, args), (dict(cfg, switch="true"), env_of(dict(cfg, switch="true")), [])] if dual and i < 2 else []):
            ds = server.Server(t.root, threads=2, env=env_ds, args=args_ds, ip="::", connect_ip="127.0.0.1")
            if cfg_ds is not cfg and os.path.exists(cfgfile):
                pass   # (a config file written for the 'file' source stays in force for this start as well: the model below uses cfg_ds only when it is the source)
            try:
                if ds.started and not (cfg_ds is not cfg and source == "file"):
                    for rel, origin in [("configured", cfg["origins"][0]), ("unrelated", "https://evil.example"), ("absent", None)]:
                        for shape in ("get", "preflight"):
                            method = "GET" if shape == "get" else "OPTIONS"
                            hs = [("Host", "localhost")] + ([("Origin", origin)] if origin is not None else []) + ([("Access-Control-Request-Method", "DELETE"), ("Access-Control-Request-Headers", "X-Other")] if shape == "preflight" else [])
                            raw = ("%s %s HTTP/1.1\r\n" % (method, f)).encode() + "".join("%s: %s\r\n" % kv for kv in hs).encode("utf-8") + b"\r\n"
                            data, end = ds.request(raw)
                            c.ev()
                            r = httpstrict.parse(data, head_request=method == "OPTIONS")
                            if r.status:
                                c.cls("on" if cfg_ds is not cfg else "off", rel, method, shape == "preflight", "binary-dual-stack-v4-peer:" + source)
                                judge(c, cfg_ds, method, rel, origin, shape, r.headers, "binary-dual-stack-v4-peer:" + source, {"config": cfg_ds, "source": source, "origin": origin, "origin_relation": rel, "method": method, "peer": "::ffff:127.0.0.1"})
                else:
                    c.count("dual_stack_listener_did_not_start (pass skipped)")
            finally:
                ds.cleanup()
        srv = server.Server(t.root, threads=2, env=env, args=args)
        try:
            if not srv.started:
                c.inconc("server did not start (config via %s)" % source)
                continue
            for rel, origin in origins_for(cfg, rng):
                for shape in ("get", "preflight"):
                    method = "GET" if shape == "get" else "OPTIONS"
                    hs = [("Host", "localhost")] + ([("Origin", origin)] if origin is not None else []) + ([("Access-Control-Request-Method", "DELETE"), ("Access-Control-Request-Headers", "X-Other")] if shape == "preflight" else [])
                    raw = ("%s %s HTTP/1.1\r\n" % (method, f)).encode() + "".join("%s: %s\r\n" % kv for kv in hs).encode("utf-8") + b"\r\n"
                    data, end = srv.request(raw)
                    c.ev()
                    c.cls("off", rel, method, shape == "preflight", "binary:" + source)
                    r = httpstrict.parse(data, head_request=method == "OPTIONS")
                    if not r.status:
                        continue
                    c.seen("engine B responses")
                    judge(c, cfg, method, rel, origin, shape, r.headers, "binary:" + source, {"config": cfg, "source": source, "origin": origin, "origin_relation": rel, "method": method})
        finally:
            srv.cleanup()
            if os.path.exists(cfgfile):
                os.remove(cfgfile)

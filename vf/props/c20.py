"""C20 - Library parsers report errors instead of panicking (DESIGN.md section 4, C20)."""
import os, base64, glob
from .. import core, build
from ..gen import mutate

REPO = build.REPO


def read(p):
    try:
        return open(os.path.join(REPO, p), "rb").read()
    except OSError:
        return None


def fixtures(patterns, cap=6, maxlen=20000):
    out = []
    for pat in patterns:
        for p in sorted(glob.glob(os.path.join(REPO, pat), recursive=True))[:cap]:
            try:
                d = open(p, "rb").read()
            except OSError:
                continue
            if 0 < len(d) <= maxlen:
                out.append(d)
    return out


JSON_OBJ = [b'{"key": "value", "n": 1, "neg": -7, "f": 1.5, "e": 1e10, "b": true, "c": false, "x": null, "o": {"a": 1, "s": "t"}, "arr": [1, 2, 3], "objs": [{"a": 1}, {"a": 2}]}',
            b'{\r\n  "s": "text",\r\n  "b": true,\r\n  "i": 12,\r\n  "f": 0.5,\r\n  "o": {\r\n  "s": "in"\r\n},\r\n  "a": [{\r\n  "s": "x"\r\n},\r\n{\r\n  "s": "y"\r\n}],\r\n  "ls": ["a","b"],\r\n  "li8": [1,2,-3]\r\n}',
            b'{}', b'{"a":{"b":{"c":{"d":{}}}}}', '{"k": "значення", "emoji": "\U0001F600"}'.encode()]
JSON_ARR = {
    "split": [b'[1, 2, 3]', b'["a", "b"]', b'[{"a": 1}, {"b": [1, 2]}]', b'[[1, 2], [3]]', b'[true, false, null]', b'[]', b'[1.5, -2e3]', '["é", "中"]'.encode()],
    "l_str": [b'["a", "b c", ""]', b'[]', b'["x"]', '["é"]'.encode()],
    "l_bool": [b'[true, false]', b'[]', b'[true]'],
    "l_null": [b'[null, null]', b'[]'],
    "l_f32": [b'[1.5, -2.25, 0.0]', b'[]', b'[1e10]'],
    "l_f64": [b'[1.5, -2.25, 0.0, 1e300]', b'[]'],
    "l_obj": [b'[{"s": "a"}, {"s": "b", "i": 1}]', b'[]', b'[{}]'],
}
for _w in ("i8", "i16", "i32", "i64", "i128", "u8", "u16", "u32", "u64", "u128"):
    JSON_ARR["l_" + _w] = [b'[1, 2, 3]', b'[]', b'[0]', b'[127, 100]' if _w.endswith("8") else b'[1000, 20000]'] + ([b'[-1, -2]'] if _w.startswith("i") else [])

REQ = [b"GET /index.html?x=1 HTTP/1.1\r\nHost: localhost\r\nUser-Agent: a\r\nAccept: */*\r\n\r\n",
       b"POST /up HTTP/1.1\r\nHost: h\r\nTransfer-Encoding: chunked\r\n\r\n5\r\nhello\r\nFFFFFFFFFFFFFFFF;x=1\r\nworld\r\n0\r\nX-T: 1\r\n\r\n",
       b"POST /form HTTP/1.1\r\nHost: h\r\nContent-Type: application/x-www-form-urlencoded\r\nContent-Length: 7\r\n\r\na=b&c=d",
       b"OPTIONS * HTTP/1.0\r\n\r\n"]
RESP = [b"HTTP/1.1 200 OK\r\nContent-Type: text/plain\r\nContent-Range: bytes 0-5/5\r\nContent-Length: 5\r\n\r\nhello",
        b"HTTP/1.1 404 Not Found\r\nX-A: b\r\nContent-Type: text/html\r\nContent-Range: bytes 0-3/3\r\nContent-Length: 3\r\n\r\n404",
        b"HTTP/1.1 206 Partial Content\r\nContent-Type: multipart/byteranges; boundary=String_separator\r\n\r\n--String_separator\r\nContent-Type: text/plain\r\nContent-Range: bytes 0-2/10\r\n\r\nabc\r\n--String_separator\r\nContent-Type: text/plain\r\nContent-Range: bytes 4-6/10\r\n\r\nefg\r\n--String_separator",
        b"HTTP/1.1 204 No Content\r\n\r\n"]
MP_BODY = [(b"----B1", b"------B1\r\nContent-Disposition: form-data; name=\"a\"\r\n\r\nvalue a\r\n------B1\r\nContent-Disposition: form-data; name=\"f\"; filename=\"x.txt\"\r\nContent-Type: text/plain\r\n\r\nfile body\r\n------B1--\r\n"),
           (b"b", b"--b\r\nContent-Disposition: form-data; name=\"k\"\r\n\r\nv\r\n--b--\r\n")]
RANGE_MP = [b"--String_separator\r\nContent-Type: text/plain\r\nContent-Range: bytes 0-2/10\r\n\r\nabc\r\n--String_separator\r\nContent-Type: text/plain\r\nContent-Range: bytes 4-6/10\r\n\r\nefg\r\n--String_separator",
            b"--String_separator\r\nContent-Type: image/png\r\nContent-Range: bytes 0-0/1\r\n\r\n\x89\r\n--String_separator"]
CFG = [b"ip = '127.0.0.1'\nport = 7888\nthread_count = 200\nrequest-allocation-size-in-bytes = 12000 # c\n\n[cors]\nallow_all = false\nallow_origins = [\"https://foo.example\", \"https://bar.example\"]\nmax_age = \"86400\"\n"]


def entry_points():
    """name -> (op, documents, how to build fields from a mutated document)"""
    cfg_fix = read("rws.config.toml")
    if cfg_fix:
        CFG.append(cfg_fix)
    jf = fixtures(["src/json/object/tests/*/*.json", "src/json/object/tests/*/*.txt"], cap=8)
    ja = fixtures(["src/json/array/**/*.json"], cap=6)
    mpf = fixtures(["src/body/multipart_form_data/**/*.txt", "src/body/**/*.multipart"], cap=4)
    respf = fixtures(["src/response/**/*.txt", "src/response/**/*.response", "src/range/**/*.txt"], cap=4)
    one = lambda d: [d]
    eps = {
        "JSON::parse_as_properties": ("json.parse.props", JSON_OBJ + jf, one),
        "FromJSON::parse(struct)": ("json.parse.struct", JSON_OBJ + jf[:3], one),
        "JSONProperty::parse": ("json.parse.prop", [b'"key": "value"', b'"n": 12', b'"f": -1.5e3', b'"b": true', b'"x": null', b'"o": {"a": 1}', b'"a": [1, 2]'], one),
        "RawUnprocessedJSONArray::split_into_vector_of_strings": ("json.parse.split", JSON_ARR["split"] + ja, one),
        "JSONArrayOfObjects::from_json": ("json.parse.l_obj", JSON_ARR["l_obj"] + ja[:2], one),
        "Base64::decode": ("b64.decode", [b"aGVsbG8gd29ybGQ=", b"QQ==", b"QUI=", b"QUJD", b"", base64.b64encode(bytes(range(256)))], one),
        "FormMultipartData::parse": ("mp.parse", None, None),
        "FormMultipartData::extract_boundary": ("mp.boundary", [b"multipart/form-data; boundary=----WebKitFormBoundaryX", b"multipart/form-data; boundary=\"q\"; charset=utf-8", b"multipart/form-data",
                                                              b"multipart/form-data; Boundary=x", b"multipart/form-data; charset=utf-8; boundary=\"a b\"", b"multipart/mixed; boundary=gc0p4Jq0M2Yt08jU534c0p", b"multipart/form-data; name=v; boundary="], one),
        "Request::parse": ("req.parse", REQ, one),
        "Response::parse": ("resp.parse", RESP + respf, one),
        "Response::_parse_response": ("resp._parse", RESP + respf, one),
        "Response::parse_http_response_header_string": ("resp.hdr", [b"Content-Type: text/html", b"X: y: z", b"Content-Length: 12"], one),
        "Response::_parse_http_response_header_string": ("resp._hdr", [b"Content-Type: text/html", b"X: y: z"], one),
        "Response::_parse_http_version_status_code_reason_phrase_string": ("resp.status_line", [b"HTTP/1.1 200 OK", b"HTTP/1.1 404 Not Found"], one),
        "Request::parse_http_request_header_string": ("req.hdr", [b"Host: localhost:80", b"A: b: c"], one),
        "Request::parse_method_and_request_uri_and_http_version_string": ("req.line", [b"GET / HTTP/1.1", b"POST /a?b HTTP/1.0"], one),
        "Header::parse": ("hdr.parse", [b"Content-Type: text/html", b"Host: localhost:80", b"X: y: z", b"Set-Cookie: a=b; c=d"], one),
        "Header::parse_header": ("hdr.parse_header", [b"Content-Type: text/html", b"X: y: z"], one),
        "ContentDisposition::parse": ("cd.parse", [b"form-data; name=\"field\"", b"form-data; name=\"f\"; filename=\"a.txt\"", b"attachment; filename=\"x.bin\"", b"inline", b"attachment",
                                                   # RFC 6266 / 5987 / 2231 syntax a client may send whether or not the library understands it
                                                   b"attachment; filename*=UTF-8''%e2%82%ac%20rates", b"form-data; name=\"f\"; filename*=iso-8859-1'en'%A3%20rates",
                                                   b"attachment; filename=\"EURO rates\"; filename*=utf-8''%e2%82%ac%20rates", b"form-data; name*0=\"a\"; name*1=\"b\"", b"form-data; name=f; filename=\"a\\\"b.txt\""], one),
        "Range::parse_range_in_content_range": ("range.parse", [b"0-10", b"5-", b"-5", b" 1 - 2 "], lambda d: [b"100", d]),
        "Range::parse_content_range": ("range.content", [b"bytes=0-10", b"bytes=0-3, 5-9", b"bytes=-5", b"bytes=5-"], lambda d: [b"/repo-file", b"1000", d]),
        "Range::_parse_content_range_header_value": ("range.crhv", [b"bytes 0-10/100", b"bytes 5-5/6"], one),
        "Range::_parse_raw_content_range_header_value": ("range.rawcrhv", [b"bytes 0-10/100", b"bytes 5-5/6"], one),
        "Range::parse_multipart_body": ("range.mp", RANGE_MP, one),
        "Range::_parse_multipart_body": ("range._mp", RANGE_MP, one),
        "Range::parse_multipart_body_with_boundary": ("range.mpb", RANGE_MP, lambda d: [b"String_separator", d]),
        "FormUrlEncoded::parse": ("form.parse", [b"a=b&c=d", b"name=J%20D&x=%26%3D", b"", b"k"], one),
        "URL::parse": ("url.parse", [b"http://user:pw@host:80/p/a/t/h?query=string&a=b#hash", b"http://localhost/", b"https://h/x?y", b"http://[::1]:80/"], one),
        "URL::parse_query": ("query.parse", [b"a=b&c=d", b"x=%26%3D%25", b""], one),
        "URL::percent_decode": ("url.decode", [b"a%20b%26", b"%E4%B8%AD", b"%"], one),
        "Request::get_uri_path/query": ("req.uri", [b"/a/b?x=1&y=2#f", b"/", b"/form?name=a%20b"], one),
        "read_config_file": ("cfg.read", CFG, lambda d: [d, b""]),
        "UrlPath::extract_parts_from_pattern": ("urlpath.parts", [b"[[name]]/some/path/[[id]]/another/part/[[param]]/ending", b"/static", b"[[a]]"], one),
        "UrlPath::is_matching": ("urlpath.is_matching", [b"/users/12/posts/7|/users/[[id]]/posts/[[post]]", b"/a|/a"], lambda d: (d.split(b"|", 1) + [b""])[:2]),
        "UrlPath::extract": ("urlpath.extract", [b"/users/12/posts/7|/users/[[id]]/posts/[[post]]", b"bob/x|[[n]]/x"], lambda d: (d.split(b"|", 1) + [b""])[:2]),
        "UrlPath::build": ("urlpath.build", [b"/users/[[id]]/posts/[[post]]"], lambda d: [b"2", b"id", b"1", b"post", b"2", d]),
    }
    for k, docs in JSON_ARR.items():
        if k.startswith("l_") and k not in ("l_obj",):
            eps["JSONArrayOf*::parse_as_list_%s" % k[2:]] = ("json.parse." + k, docs + (ja[:1] if k == "l_str" else []), one)
    return eps, mpf


def run(c):
    c.rule = ("per public parsing entry point: a corpus of valid documents (repository fixtures + hand-written) x structure-aware mutations (truncation at every position, byte flips, "
              "non-ASCII / non-UTF-8 / NUL insertion, duplicated and deleted delimiters, deep nesting, long lines, numeric extremes, random bytes, one structural unit - line, record, element, document - repeated up to 250 KB / 1 MB); one call per case under a panic hook, "
              "exit-status journal and a no-progress watchdog; lanes rel and overflow-checks. Class = (entry point, mutation kind, lane); non-trivial = any mutation.")
    c.assumptions += ["string-typed entry points receive valid UTF-8 (lossy conversion of the mutated bytes); byte-typed entry points receive the raw mutated bytes",
                      "no return within 20 s for inputs that normally return in microseconds is reported as non-termination suspected"]
    rng = c.rng
    eps, mpf = entry_points()
    per_ep = 700 if c.quick else 40000
    cases, meta = [], {}
    cid = 0

    # the no-progress bound is stated for inputs up to 64 KiB (several scanners are quadratic in the input length:
    # slow on half a megabyte, but terminating); longer mutants are cut
    cap = 65536 if c.quick else 131072
    # repetition bombs (one structural unit repeated) may exceed the cap: for them only a crash is judged, not the time taken
    BOMB_SIZES = (9000, 60000, 250000) if c.quick else (9000, 60000, 250000, 1000000)

    def add(name, op, fields, kind, doc, nocap=False):
        nonlocal cid
        if len(doc) > cap and not nocap:
            doc = doc[:cap]
            fields = [f[:cap] if isinstance(f, (bytes, bytearray)) else f for f in fields]
        cid += 1
        k = "c%d" % cid
        cs = core.Case(k, op, fields, {"entry": name, "kind": kind})
        cases.append(cs)
        meta[k] = (name, kind, cs, doc)

    for name, (op, docs, mk) in sorted(eps.items()):
        c.need("entry point exercised: " + name)
        if name == "FormMultipartData::parse":
            pool = [(b, d) for b, d in MP_BODY]
            # truncation at every position of one document
            b0, d0 = pool[0]
            for kind, m in mutate.truncations(d0):
                add(name, op, [b0, m], kind, m)
            for b, d in pool:
                for kind, m in mutate.repetitions(d, BOMB_SIZES):
                    add(name, op, [b, m], kind, m, nocap=True)
            for i in range(per_ep):
                b, d = rng.choice(pool)
                kind, m = mutate.mutate(d, rng)
                bb = b if rng.chance(4, 5) else rng.choice([b"", b"-", b"--", b"\xff", b"b" * 300, b"B1", b"\r\n"])
                add(name, op, [bb, m], kind if bb == b else kind + "+boundary", m)
            continue
        docs = [d for d in docs if d is not None]
        # truncation at every position of the longest document, and of every other short document
        d0 = max(docs[:3], key=len)
        for kind, m in mutate.truncations(d0, cap=None if len(d0) < 600 else 400):
            add(name, op, mk(m), kind, m)
        for d in docs[:12]:
            if d is not d0 and len(d) < 300:
                for kind, m in mutate.truncations(d):
                    add(name, op, mk(m), kind, m)
        for d in docs[:12]:
            for kind, m in mutate.special_inserts(d):
                add(name, op, mk(m), kind, m)
        add(name, op, mk(b""), "empty", b"")
        for d in docs[:3]:
            for kind, m in mutate.repetitions(d, BOMB_SIZES):
                add(name, op, mk(m), kind, m, nocap=True)
        for d in docs[:4]:
            for kind, m in mutate.numeric_cross(d):
                add(name, op, mk(m), kind, m)
        for depth in (10, 100, 1000, 10000):
            for o, cl in ((b"[", b"]"), (b"{", b"}"), (b'{"a":', b"}"), (b"[[", b"]]"), (b"--", b"\r\n")):
                m = mutate.nesting(o, cl, depth, rng.choice([b"", b"1", b'"x"']))
                add(name, op, mk(m), "deep-nesting", m)
        for i in range(per_ep):
            d = rng.choice(docs)
            r = rng.below(20)
            if r == 0:
                kind, m = "random-bytes", rng.bytes(rng.choice([1, 8, 64, 512]))
            else:
                kind, m = mutate.mutate(d, rng)
                if r < 4:
                    k2, m = mutate.mutate(m, rng)
                    kind = kind + "+" + k2
            add(name, op, mk(m), kind, m)
    wd = 4 if c.quick else 20
    c.extra["no_progress_watchdog_s"] = wd
    for lane in ("rel", "chk"):
        # pilot pass: find the entry points that hang or abort, so that the main pass does not spend its budget re-observing them
        bad = {}
        pilot = cases[::12]
        obs = core.run_cases(pilot, lane=lane, cwd=REPO, per_case_timeout=wd, shard_size=max(20, len(pilot) // 64), bad_ops=bad)
        flagged = set(op for (op, _), n in bad.items() if n >= 2)
        pilot_ids = set(x.id for x in pilot)
        rest = [x for x in cases if x.id not in pilot_ids and x.op not in flagged]
        c.extra.setdefault("entry_points_cut_short_after_repeated_hang_or_abort", {})[lane] = sorted(flagged)
        obs.update(core.run_cases(rest, lane=lane, cwd=REPO, per_case_timeout=wd, bad_ops=bad))
        for k, (name, kind, cs, doc) in meta.items():
            o = obs.get(k)
            if o is None and cs.op in flagged:
                c.count("cases_not_run_entry_point_already_reported_hanging")
                continue
            c.ev()
            if o is None or o.outcome == "missing":
                c.inconc("no observation for %s (%s)" % (k, name))
                continue
            c.seen("entry point exercised: " + name)
            c.cls(name, kind.split("+")[0], lane)
            c.count("outcome_" + o.outcome)
            if o.outcome == "skipped":
                continue
            if o.outcome == "timeout" and len(doc) > cap:
                c.count("slow_on_inputs_above_the_size_cap (not judged)")
                continue
            if o.outcome in ("panic", "died", "timeout"):
                c.crash(name, o, cs, {"lane": lane, "mutation": kind, "input_b64": base64.b64encode(doc[:4000]).decode(), "input_len": len(doc)})
            elif o.outcome == "err" and o.err.startswith("harness:"):
                c.inconc("harness error: " + o.err)
            if len(c.samples) < 10 and o.outcome != "ok" and (hash(k) % 97 == 0):
                c.sample({"entry": name, "mutation": kind, "lane": lane, "input_prefix": doc[:60].decode("latin-1"), "outcome": o.summary()[:120]})
    if not c.quick:
        # coverage-guided amplifier: libFuzzer chooses further inputs for the same entry points; the monitors stay the same
        from .. import fuzzlane
        seeds = [(op, d) for name, (op, docs, mk) in sorted(eps.items()) if docs for d in docs[:6] if d is not None]
        seeds += [("mp.parse", b + b"\n" + d) for b, d in MP_BODY]
        st = fuzzlane.run(c, "C20", int(os.environ.get("VERIF_FUZZ_SECONDS", "600")), seeds, REPO, only_ops=set(op for op, _ in fuzzlane.OPS) - {"serve"})
        c.extra["libfuzzer_lane"] = st
        c.cls("libfuzzer", st.get("coverage_edges", 0) > 0)
    if not c.samples:
        k, (name, kind, cs, doc) = next(iter(meta.items()))
        c.sample({"entry": name, "mutation": kind, "input_prefix": doc[:60].decode("latin-1")})

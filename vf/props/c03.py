"""C03 - Byte-range requests return exactly the requested bytes (DESIGN.md section 4, C03)."""
import os, re
from .. import core, fetch, server, httpstrict, models
from ..gen import tree as treegen

U64 = 2 ** 64 - 1


def offsets(L):
    return [0, 1, 2, max(0, L - 2), max(0, L - 1), L, L + 1, 2 ** 63, U64, U64 + 1]


def gen_spec(rng, L):
    """one range-spec string + its form"""
    form = rng.choice(["closed", "closed", "open", "suffix", "junk"])
    num = lambda: str(rng.choice(offsets(L))) if rng.chance(4, 5) else str(rng.below(max(1, L + 3)))
    ws = lambda: rng.choice(["", "", "", " ", "  "])
    if form == "closed":
        a, b = num(), num()
        if rng.chance(3, 5) and L > 0:
            x, y = sorted((rng.below(L), rng.below(L)))
            a, b = str(x), str(y)
        return form, "%s%s%s-%s%s%s" % (ws(), a, ws(), ws(), b, ws())
    if form == "open":
        return form, "%s%s-%s" % (ws(), num(), ws())
    if form == "suffix":
        return form, "%s-%s%s" % (ws(), rng.choice([str(rng.choice([0, 1, 2, max(1, L - 1), L, L + 1, 2 ** 63, U64, U64 + 1])), str(rng.below(max(1, L + 2)))]), ws())
    return form, rng.choice(["", "x", "a-b", "1-x", "x-1", "-", "--1", "1--2", "1-2-3", "0x1-0x2", "1.5-2", "+1-2", "-+1", "١-٢", " ", "1 2-3"])


def gen_headers(rng, L, n):
    out = []
    # deterministic core
    for form, spec in [("closed", "0-0"), ("closed", "0-%d" % max(0, L - 1)), ("closed", "%d-%d" % (max(0, L - 1), max(0, L - 1))), ("closed", "0-%d" % L), ("closed", "%d-%d" % (L, L)), ("closed", "1-0"),
                       ("open", "0-"), ("open", "%d-" % max(0, L - 1)), ("open", "%d-" % L), ("open", "%d-" % (L + 1)), ("open", "2-"),
                       ("suffix", "-1"), ("suffix", "-%d" % L), ("suffix", "-%d" % (L + 1)), ("suffix", "-0"), ("suffix", "-3"), ("suffix", "-%d" % U64), ("suffix", "-%d" % (U64 + 1)),
                       ("closed", "0-%d" % U64), ("closed", "%d-%d" % (U64, U64)), ("closed", "0-%d" % (U64 + 1))]:
        out.append(("bytes=" + spec, [(form, spec)]))
    if L >= 10:
        out.append(("bytes=0-3, 5-8", [("closed", "0-3"), ("closed", " 5-8")]))
        out.append(("bytes=5-8,0-3", [("closed", "5-8"), ("closed", "0-3")]))
        out.append(("bytes=0-0,%d-%d,-1,2-" % (L - 1, L - 1), [("closed", "0-0"), ("closed", "%d-%d" % (L - 1, L - 1)), ("suffix", "-1"), ("open", "2-")]))
        out.append(("bytes=0-3,0-3", [("closed", "0-3"), ("closed", "0-3")]))
    if L >= 10:
        # many ranges in one header (counts around powers of two, as many as fit into one read): all inside the file
        for cnt in (15, 16, 17, 63, 64, 65, 127, 128, 129, 199, 200, 201, 255, 256, 257, 511, 512, 513, 1000):
            specs = []
            for j in range(cnt):
                a = (j * 7) % (L - 1)
                form = ("closed", "%d-%d" % (a, min(L - 1, a + (j % 3)))) if j % 5 else (("suffix", "-%d" % (1 + j % 4)) if j % 2 else ("open", "%d-" % (L - 1 - j % 3)))
                specs.append(form)
            val = "bytes=" + ",".join(sp for _, sp in specs)
            if len(val) < 9500:
                out.append((val, specs))
    for _ in range(n):
        k = rng.choice([1, 1, 1, 2, 2, 3, 4, 6])
        specs = [gen_spec(rng, L) for _ in range(k)]
        sep = rng.choice([",", ", ", " ,", " , "])
        val = "bytes=" + sep.join(s for _, s in specs)
        r = rng.below(40)
        if r == 0:
            val = val.replace("bytes=", rng.choice(["bytes =", "Bytes=", "byte=", "", "bytes", "octets="]), 1)
        out.append((val, specs))
    return out


def expected(value, L):
    """('exact', [(first,last),...]) when every spec lies inside the file, else ('lenient', None)"""
    specs = models.header_specs(value)
    if specs is None:
        return "lenient", None
    res = [models.resolve(s, L) for s in specs]
    if all(r[0] == "inside" for r in res):
        return "exact", [(r[1], r[2]) for r in res]
    return "lenient", None


def offset_classes(value, L):
    cl = set()
    for m in re.finditer(r"[0-9]+", value):
        v = int(m.group(0))
        if v in (0, 1):
            cl.add(str(v))
        elif L and v in (L - 2, L - 1, L, L + 1):
            cl.add("L%+d" % (v - L))
        elif v >= 2 ** 63:
            cl.add("huge")
    return tuple(sorted(cl))


def lclass(L):
    return "0" if L == 0 else ("1" if L == 1 else ("small" if L < 4096 else ("~4k" if L < 4100 else ("~8k" if 8190 <= L <= 8194 else ("~10k" if 9998 <= L <= 10002 else ("big" if L > 60000 else "mid"))))))


def form_of(spec):
    p = models.parse_spec(spec)
    return p[0] if p else "junk"


def judge(c, data, value, specs, res, entry, lane, path):
    L = len(data)
    rp = {"file_length": L, "range": value, "entry": entry, "lane": lane, "request_b64": fetch.b64(res.raw_request), "response_head": res.response[:400].decode("latin-1")}
    kind, want = expected(value, L)
    forms = tuple(sorted(set(form_of(s) for s in (models.header_specs(value) or ["junk"]))))
    if res.crashed:
        from ..ctx import crash_sig
        sig = crash_sig("C03", "Server::process", res.obs) if res.obs else "C03:crash:binary"
        c.violation(sig, "Range %r on a %d-byte file crashed the handler: %s" % (value, L, res.obs.summary()[:160] if res.obs else res.end), rp)
        return
    if not res.response:
        c.inconc("no response bytes (%s)" % res.end)
        return
    r = httpstrict.parse(res.response)
    if r.errors:
        c.count("responses_with_framing_errors (C05's business)")
        if not r.status:
            return
    c.count("status_%s" % r.status)
    # collect the parts the response carries
    ct = r.get("content-type") or ""
    parts = []
    if ct.lower().startswith("multipart/byteranges"):
        ps, errs = httpstrict.multipart_byteranges(r.body, ct)
        if errs:
            c.violation("C03:structure:multipart-unreadable", "multipart/byteranges body cannot be read: %s" % errs[:2], rp)
            return
        for p in ps:
            parts.append((p.start, p.end, p.size, p.body, p.errors))
        c.seen("206 multipart")
    elif r.status in (200, 206):
        cr = httpstrict.parse_content_range(r.get("content-range"))
        if cr is None and r.status == 206:
            c.violation("C03:structure:206-without-content-range", "206 without a parsable Content-Range: %r" % r.get("content-range"), rp)
            return
        if cr:
            parts.append((cr[0], cr[1], cr[2], r.body, []))
        if r.status == 206:
            c.seen("206 single")
    if r.status == 416:
        c.seen("416")
    if kind == "exact":
        single = len(want) == 1
        if r.status != 206:
            c.violation("C03:status:expected-206-got-%s:forms=%s:L=%s" % (r.status, "+".join(forms), "0" if L == 0 else "pos"), "all ranges of %r lie inside the %d-byte file but the answer is %s" % (value, L, r.status), rp)
            return
        if len(parts) != len(want):
            c.violation("C03:structure:part-count", "%d ranges requested, %d parts returned" % (len(want), len(parts)), rp)
            return
        for j, ((a, b), (s, e, size, body, perrs)) in enumerate(zip(want, parts)):
            form = form_of(models.header_specs(value)[j])
            if body != data[a:b + 1]:
                other_order = any(body == data[x:y + 1] for (x, y) in want)
                c.violation("C03:%s:form=%s" % ("order" if other_order and len(want) > 1 else "bytes", form), "part %d for spec %r carries %d bytes, expected bytes %d..%d (%d bytes)" % (j, models.header_specs(value)[j], len(body), a, b, b - a + 1), rp)
                return
            if (s, e) != (a, b):
                c.violation("C03:label:form=%s:start_delta=%+d:end_delta=%+d" % (form, s - a, e - b), "spec %r on a %d-byte file is labelled Content-Range %d-%d, the bytes sent are %d-%d" % (models.header_specs(value)[j], L, s, e, a, b), rp)
                return
            if size != L:
                c.violation("C03:size-label", "Content-Range announces size %r, the file has %d bytes" % (size, L), rp)
                return
        if single:
            cl = r.get("content-length")
            if cl is None or not cl.isdigit() or int(cl) != len(r.body):
                c.violation("C03:length", "single range: Content-Length %r, %d bytes sent" % (cl, len(r.body)), rp)
    else:
        # malformed or reaching outside: 416, or self-consistent slices inside requested ∩ file
        if r.status == 416:
            return
        if r.status not in (200, 206):
            c.violation("C03:status:unsatisfiable-got-%s" % r.status, "Range %r (malformed / outside a %d-byte file) answered %s" % (value, L, r.status), rp)
            return
        for (s, e, size, body, perrs) in parts:
            ok = s is not None and 0 <= s <= e < max(L, 1) and body == data[s:e + 1] and size == L
            if L == 0:
                ok = body == b"" and size in (0, None)
            if not ok:
                if s is not None and e is not None and e >= s and body == data[s:e] and len(body) == e - s:
                    why = "label-end-exclusive"          # the label names one offset more than the bytes sent
                elif s is not None and body == data[s:s + len(body)]:
                    why = "label-beyond-bytes-sent"
                else:
                    why = "bytes-from-other-offsets"
                c.violation("C03:lenient:%s:L=%s" % (why, "0" if L == 0 else "pos"), "Range %r on a %d-byte file answered %s with part %s-%s/%s carrying %d bytes: not a correctly labelled slice" % (value, L, r.status, s, e, size, len(body)), rp)
                return


def run(c):
    c.rule = ("file lengths L in {0,1,2,3,10,4095..4097,8191..8193,9999..10001,65536,(1 MiB)} with every byte value x Range values: first-last, first-, -suffix, 1..6 comma-separated specs with optional "
              "whitespace, offsets from {0,1,L-2,L-1,L,L+1,2^63,u64::MAX,u64::MAX+1,non-numeric}; oracle = RFC 7233 reference resolution (all inside => exact 206; otherwise 416 or self-consistent clamped slices). "
              "Lanes rel and overflow-checks in-process, plus the real binary. Class = (spec forms, offset classes relative to L, L class, #specs, lane/engine); non-trivial = an offset within 1 of a boundary or extreme.")
    rng = c.rng
    lengths = [0, 1, 2, 3, 10, 4095, 4096, 4097, 8191, 8192, 8193, 9999, 10000, 10001, 65536] + ([] if c.quick else [1 << 20])
    per_len = 500 if c.quick else 12000
    for cat in ("206 single", "206 multipart", "416", "form closed", "form open", "form suffix", "L = 0", "L = 1", "L > 8192", "engine B responses"):
        c.need(cat)
    t = treegen.Tree()
    t.base = core.scratch("tree-")
    t.root = os.path.join(t.base, "outer2", "outer1", "root")
    os.makedirs(t.root)
    srv = None
    try:
        files = {}
        for L in lengths:
            name = "/f%d.bin" % L
            data = (bytes(range(256)) * (L // 256 + 1))[:L] if L % 2 == 0 else rng.bytes(L)
            t.add_file(name, data)
            files[L] = (name, data)
        work = []
        for L in lengths:
            name, data = files[L]
            for value, specs in gen_headers(rng, L, per_len):
                # header names are case-insensitive; the Range header is not always the last one
                hn = rng.choice(["Range"] * 5 + ["range", "RANGE", "rAnGe"])
                tail = rng.choice([""] * 3 + ["Accept: */*\r\n", "X-After: 1\r\nUser-Agent: vf\r\n", "If-Range: \"abc\"\r\n", "If-Range: Wed, 21 Oct 2015 07:28:00 GMT\r\n", "Accept-Encoding: gzip, deflate, br\r\n",
                                              "If-None-Match: *\r\n", "If-Modified-Since: Thu, 01 Jan 2099 00:00:00 GMT\r\n", "Cache-Control: no-cache\r\nPragma: no-cache\r\n", "Sec-Fetch-Dest: video\r\nSec-Fetch-Mode: no-cors\r\n", "TE: trailers\r\nConnection: keep-alive\r\n"])
                raw = ("GET %s HTTP/1.1\r\nHost: localhost\r\n%s: %s\r\n%s\r\n" % (name, hn, value, tail)).encode("utf-8")
                if hn != "Range":
                    c.count("range_header_name_spelled_" + hn)
                work.append((L, value, specs, raw))
        # as many specs as fit into the request buffer (thorough): also drives the i32 sums in the logger
        if not c.quick:
            name, data = files[10]
            many = ",".join(["0-1"] * 1500)
            work.append((10, "bytes=" + many, [], ("GET %s HTTP/1.1\r\nHost: localhost\r\nRange: bytes=%s\r\n\r\n" % (name, many)).encode()))
        for lane in ("rel", "chk"):
            results = fetch.inproc(t.root, [w[3] for w in work], entry="process", lane=lane)
            for (L, value, specs, raw), res in zip(work, results):
                c.ev()
                oc = offset_classes(value, L)
                forms = tuple(sorted(set(form_of(s) for s in (models.header_specs(value) or ["junk"]))))
                if oc:
                    c.cls(forms, oc, lclass(L), min(len(specs), 6), lane)
                for f in forms:
                    if f in ("closed", "open", "suffix"):
                        c.seen("form " + f)
                if L == 0:
                    c.seen("L = 0")
                if L == 1:
                    c.seen("L = 1")
                if L > 8192:
                    c.seen("L > 8192")
                if res.end == "missing":
                    c.inconc("no observation")
                    continue
                judge(c, files[L][1], value, specs, res, "process", lane, files[L][0])
                if len(c.samples) < 6 and c.evaluations % 301 == 0:
                    c.sample({"L": L, "range": value, "lane": lane, "status_line": res.response[:30].decode("latin-1"), "content_range": (httpstrict.parse(res.response).get("content-range") if res.response else None)})
        # Engine B
        srv = server.Server(t.root, threads=4)

        def restart(old):
            old.cleanup()
            s = server.Server(t.root, threads=4)
            return s if s.started else None
        if srv.started:
            nb = 800 if c.quick else 8000
            idx = sorted(rng.sample(range(len(work)), min(nb, len(work))))
            bres, srv = fetch.binary(srv, [work[i][3] for i in idx], restart=restart, threads=4)
            for i, res in zip(idx, bres):
                L, value, specs, raw = work[i]
                c.ev()
                oc = offset_classes(value, L)
                if oc:
                    c.cls(tuple(sorted(set(form_of(s) for s in (models.header_specs(value) or ["junk"])))), oc, lclass(L), min(len(specs), 6), "binary")
                if res.response:
                    c.seen("engine B responses")
                if res.crashed and res.obs is None:
                    c.violation("C03:crash:binary", "Range %r on a %d-byte file made the server lose a worker / exit" % (value, L), {"range": value, "file_length": L})
                    continue
                judge(c, files[L][1], value, specs, res, "binary", "rel", files[L][0])
        else:
            c.inconc("server did not start")
    finally:
        if srv:
            srv.cleanup()
        t.cleanup()

"""C07 - The worker pool runs every task exactly once, N at a time, without deadlock (DESIGN.md section 4, C07)."""
import os, subprocess, re, shutil
from concurrent.futures import ThreadPoolExecutor
from .. import core, build, trace


def make_spec(rng, n, runs, prefix):
    lines = []
    for i in range(runs):
        kind = ["instant", "instant", "rendezvous", "rendezvous", "slow", "panicky", "rendezvous"][i % 7]
        if kind == "panicky":
            t = rng.choice([1, 12, 12, 3 * n + 12])
        elif kind == "instant":
            t = rng.range(0, 4 * n)
        elif kind == "rendezvous":
            t = rng.range(max(1, n - 1), 4 * n) if i % 3 else n
        else:
            t = 3 * n
        pseed = 0 if i % 11 == 0 else (rng.u64() >> 1) | 1
        lines.append("%s%d %s %d %d" % (prefix, i, kind, t, pseed))
    return "\n".join(lines) + "\n"


def run_pool(vh, n, spec_text, watchdog=10, env=None, timeout=900):
    d = core.scratch("pool-")
    try:
        sp, out = os.path.join(d, "spec"), os.path.join(d, "out")
        open(sp, "w").write(spec_text)
        e = dict(os.environ)
        if env:
            e.update(env)
        try:
            p = subprocess.run([vh, "pool", str(n), sp, out, str(watchdog)], stdout=subprocess.DEVNULL, stderr=subprocess.PIPE, timeout=timeout, env=e, cwd=d)
            rc, err = p.returncode, p.stderr.decode("utf-8", "replace")
        except subprocess.TimeoutExpired as ex:
            rc, err = "timeout", (ex.stderr or b"").decode("utf-8", "replace")
        scns = trace.parse(out) if os.path.exists(out) else []
        return rc, err, scns
    finally:
        shutil.rmtree(d, ignore_errors=True)


def native(c, lane, total_runs, jobs=8):
    vh = build.harness(lane)
    rng = c.rng
    per_proc = 60
    procs = []
    k = 0
    while k * per_proc < total_runs:
        n = 1 + (k % 8)
        procs.append((n, make_spec(rng, n, per_proc, "p%d-" % k)))
        k += 1
    # one large pool (more workers than any plausible multiple of the CPU count): all of them must be able to run at once
    big = 300
    procs.append((big, "big-0 rendezvous %d 0\nbig-1 instant %d %d\nbig-2 rendezvous %d %d\n" % (big, 2 * big, (rng.u64() >> 1) | 1, big, (rng.u64() >> 1) | 1)))
    sigs = set()
    hist = {}
    per_point = {}

    def one(a):
        return a[0], run_pool(vh, a[0], a[1])
    with ThreadPoolExecutor(max_workers=jobs) as ex:
        for n, (rc, err, scns) in ex.map(one, procs):
            if rc != 0:
                if rc == "timeout":
                    c.violation("C07:no-progress:pool-process", "pool workload with %d workers did not finish (process-level watchdog); last scenarios: %s" % (n, [s.id for s in scns[-2:]]), {"workers": n, "stderr": err[-400:]})
                else:
                    c.inconc("pool process exited with %s: %s" % (rc, err[-200:]))
            for s in scns:
                c.ev()
                viol, st = trace.check(s)
                for clause, text in viol:
                    c.violation("C07:%s" % clause, "%s [scenario %s kind=%s workers=%d tasks=%d perturbation_seed=%d lane=%s]" % (text, s.id, s.kind, s.n, s.submitted, s.pseed, lane),
                                {"pool": {"n": s.n, "tasks": s.submitted, "kind": s.kind, "perturbation_seed": s.pseed}, "lane": lane, "events": [list(e) for e in sorted(s.events)[:400]], "census": s.census, "flags": s.flags})
                mo = st["max_overlap"]
                hist[mo] = hist.get(mo, 0) + 1
                for p, cnt in st["per_point"].items():
                    per_point[p] = per_point.get(p, 0) + cnt
                if s.n >= 2 and mo >= 2:
                    c.cls(st["signature"])
                    c.seen(">= 2 overlapping tasks")
                if s.n == 1:
                    c.seen("N = 1")
                if s.n >= 4:
                    c.seen("N >= 4")
                if s.n >= 256 and s.kind == "rendezvous" and not viol:
                    c.seen("a rendezvous of 300 workers")
                if s.kind == "rendezvous" and s.submitted >= s.n and not viol:
                    c.seen("a rendezvous of N")
                if s.kind == "slow":
                    c.seen("a slow-task run")
                if s.kind == "panicky" and s.submitted >= 12:
                    c.seen("a run of tasks that panic with every payload kind")
                if len(c.samples) < 4 and s.kind != "instant" and s.n >= 3:
                    c.sample({"scenario": s.id, "kind": s.kind, "workers": s.n, "tasks": s.submitted, "max_concurrent": s.max_running, "perturbation_seed": s.pseed, "first_events": [(e[2], e[3], e[4]) for e in sorted(s.events)[:14]]})
            if lane == "tsan":
                reports = err.count("WARNING: ThreadSanitizer")
                c.count("tsan_reports", reports)
                if reports:
                    m = re.search(r"WARNING: ThreadSanitizer: ([^\n]+)\n(.{0,1500})", err, re.S)
                    frames = re.findall(r"#\d+ (rws::[^\s]+)", m.group(2) if m else "")
                    c.violation("C07:tsan:%s:%s" % ((m.group(1).split("(")[0].strip().replace(" ", "-") if m else "report"), frames[0] if frames else "?"), "ThreadSanitizer report in the pool workload: %s" % (m.group(0)[:600] if m else err[:300]), {"lane": lane})
    c.extra.setdefault("max_concurrent_histogram", {}).update({str(k): v for k, v in sorted(hist.items())})
    c.extra.setdefault("events_per_hook_point", {}).update(per_point)


def miri(c, configs, seeds):
    cmd, cwd = build.miri_cmd()
    env = dict(os.environ)
    env.update(build.BASE_ENV)
    env["MIRIFLAGS"] = "-Zmiri-ignore-leaks -Zmiri-many-seeds=0..%d" % seeds
    env["RUSTFLAGS"] = "--cfg rws_verif -Awarnings"
    c.need("Miri ran >= 1 seed per config")
    ran = 0

    def one(cfg):
        n, t, kind = cfg
        try:
            p = subprocess.run(cmd + [str(n), str(t), kind], cwd=cwd, env=env, stdout=subprocess.PIPE, stderr=subprocess.PIPE, timeout=3000)
            return cfg, p.returncode, p.stdout.decode("utf-8", "replace"), p.stderr.decode("utf-8", "replace")
        except subprocess.TimeoutExpired:
            return cfg, "timeout", "", ""
    with build._lock("miri-run"):
        # first run builds the sysroot / crate; run it alone, then fan out
        first = one(configs[0])
        rest = []
        with ThreadPoolExecutor(max_workers=6) as ex:
            rest = list(ex.map(one, configs[1:]))
    for (n, t, kind), rc, out, err in [first] + rest:
        oks = out.count("MIRI-POOL ok")
        c.ev(max(oks, 1))
        c.count("miri_seeds_completed", oks)
        c.cls("miri", n, t, kind)
        if rc == "timeout":
            c.inconc("miri run timed out (workers=%d tasks=%d %s)" % (n, t, kind))
            continue
        if "error: unsupported operation" in err or "could not compile" in err or ("error" in err and "MIRI-POOL" not in out and "deadlock" not in err and "Undefined Behavior" not in err and "Data race" not in err):
            c.inconc("miri could not run (workers=%d tasks=%d %s): %s" % (n, t, kind, err[-300:]))
            continue
        if oks:
            ran += 1
        bad = None
        if "deadlock" in err:
            bad = "deadlock"
        elif "Data race" in err or "data race" in err:
            bad = "data-race"
        elif "Undefined Behavior" in err:
            bad = "undefined-behaviour"
        elif "MIRI-POOL violation" in out:
            bad = "tasks-not-exactly-once"
        elif rc != 0:
            bad = "failed"
        if bad:
            seed = re.search(r"seed (\d+)", err)
            c.violation("C07:miri:%s" % bad, "Miri (%d workers, %d tasks, %s%s): %s" % (n, t, kind, ", seed " + seed.group(1) if seed else "", (err[-700:] or out[-300:])), {"pool": {"n": n, "tasks": t, "kind": kind}, "miri_seed": seed.group(1) if seed else None})
    if ran == len(configs):
        c.seen("Miri ran >= 1 seed per config")
    c.extra["miri_seeds_per_config"] = seeds


def run(c):
    c.rule = ("pool sizes 1..8 and 300, task counts 0..4N, behaviours instant / rendezvous of min(N,T) / one long + 3N instant / tasks that panic with 12 kinds of payload (str, long, multi-byte at every alignment, control characters, non-string, empty) followed by a rendezvous; seeded perturbation (nothing / yield / spin / 50-500 us sleep) at the five cfg(rws_verif) hook points "
              "(Submit, BeforeLock, Locked, Received, Finished); offline checker over the sequence-numbered event log: exactly-once, conservation, per-worker automaton, lock discipline, rendezvous, slow-task isolation, census; "
              "the same small workloads under Miri's randomised scheduler (deadlock / data-race / UB detection, no clocks). Class = interleaving signature (event sequence projected on (worker, point)); non-trivial = N >= 2 and >= 2 tasks overlapped.")
    c.assumptions += ["native no-progress watchdog: 10 s without any event on workloads that normally finish in < 50 ms", "Miri explores the seeds it is given, not all schedules"]
    for cat in ("N = 1", "N >= 4", "a rendezvous of N", "a slow-task run", ">= 2 overlapping tasks", "a run of tasks that panic with every payload kind", "a rendezvous of 300 workers"):
        c.need(cat)
    native(c, "rel", 1500 if c.quick else 150000)
    if c.quick:
        miri(c, [(2, 4, "instant"), (3, 3, "rendezvous"), (2, 5, "rendezvous")], 16)
    else:
        cfgs = [(n, t, k) for n in (1, 2, 3, 4) for (t, k) in ((0, "instant"), (n, "rendezvous"), (2 * n + 1, "rendezvous"), (3, "instant"))][:12]
        miri(c, cfgs, 512)
        native(c, "tsan", 6000)

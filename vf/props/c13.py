"""C13 - The server never modifies the files it serves (DESIGN.md section 4, C13)."""
import os, glob, base64
from .. import core, build, fetch, server, fsmon, serve
from ..gen import tree as treegen, req as reqgen
from . import c04, c06


def upload_requests(t, rng):
    files = sorted(t.files)
    existing = files[0] if files else "/a.txt"
    out = []
    H = "Host: localhost\r\n"
    body = b"uploaded content " + rng.bytes(64)
    for m in ("PUT", "DELETE", "PATCH", "POST", "CONNECT", "TRACE", "OPTIONS", "HEAD", "GET"):
        for target in (existing, "/new-file.txt", "/newdir/new.txt", "/../outside.txt", "/", "/uploads/x.bin", existing + "?delete=1"):
            out.append((m, "upload-shaped", ("%s %s HTTP/1.1\r\n%sContent-Type: application/octet-stream\r\nContent-Length: %d\r\n\r\n" % (m, target, H, len(body))).encode() + body))
        out.append((m, "content-range", ("%s %s HTTP/1.1\r\n%sContent-Range: bytes 0-9/10\r\nContent-Length: 10\r\n\r\n0123456789" % (m, existing, H)).encode()))
    for name in ("../x", "/etc/passwd", "/tmp/rws-evil", existing.lstrip("/"), "a.bin", "..%2f..%2fevil", "uploads/evil", "."):
        out.append(("POST", "file-upload-initiate", ("POST /file-upload/initiate?name=%s&lastModified=1700000000&size=123 HTTP/1.1\r\n%s\r\n" % (name, H)).encode()))
    for fn in ("../../evil", "/tmp/rws-evil2", existing.lstrip("/"), "plain.txt"):
        mb = reqgen.multipart_body([("note", "hi")], files=[("file", fn, "application/octet-stream", b"FILE-PART-CONTENT" * 10)])
        out.append(("POST", "multipart-file-part", ("POST /form-multipart-enctype-post-method HTTP/1.1\r\n%sContent-Type: multipart/form-data; boundary=----WebKitFormBoundaryAbC123xyz\r\nContent-Length: %d\r\n\r\n" % (H, len(mb))).encode() + mb))
    # range-shaped reads of large and small files, valid and refused, single and multi-part, through links as well
    for f in [x for x in files if len(t.files[x]) > 65536][:4] + [x for x in files if 100 < len(t.files[x]) < 5000][:1] + sorted(k for k in t.links if os.path.isfile(t.abs(k)))[:2]:
        L = len(t.files[f]) if f in t.files else 1000
        for rv in ("bytes=0-99", "bytes=0-99, 200-299", "bytes=0-99, %d-%d" % (L + 100, L), "bytes=%d-%d, 0-9" % (L + 5, L + 9), "bytes=0-9, x-y", "bytes=0-9,,", "bytes=-5, 0-0", "bytes=5-, 99999999999-", "bytes=0-0,1-1,2-2,%d-" % (L + 1)):
            out.append(("GET", "range-shaped", ("GET %s HTTP/1.1\r\n%sRange: %s\r\n\r\n" % (f, H, rv)).encode()))
            out.append(("HEAD", "range-shaped", ("HEAD %s HTTP/1.1\r\n%sRange: %s\r\n\r\n" % (f, H, rv)).encode()))
    out.append(("POST", "urlencoded", ("POST /form-url-encoded-enctype-post-method HTTP/1.1\r\n%sContent-Type: application/x-www-form-urlencoded\r\nContent-Length: 27\r\n\r\nfile=../evil&content=abcdef" % H).encode()))
    return out


def run(c):
    c.rule = ("the C04 input space and C06-style connection histories plus upload-shaped requests (PUT / DELETE / PATCH / POST / CONNECT / TRACE on existing and new paths with bodies, Content-Range on PUT, /file-upload/initiate "
              "with '../', absolute and existing names, multipart posts with file parts named '../../evil') against a tree whose manifest (path, type, size, sha256, link target, mode, mtime, inode) and that of the sentinel "
              "directories around it is compared before / after; the real binary additionally runs under strace -f: any open for writing / creating and any unlink, rename, mkdir, rmdir, link, symlink, truncate, chmod, chown, "
              "utime, mknod, setxattr anywhere is a violation; one server lives through clock jumps of a minute ... a year (LD_PRELOAD shim) between request batches. Class = (method, route/body shape, engine); non-trivial = not a plain GET.")
    rng = c.rng
    for m in reqgen.METHODS:
        c.need("method " + m)
    c.need("upload-shaped bodies")
    c.need("strace lane saw an open of a served file")
    c.need("tree without 404.html / index.html")
    # one tree with the optional root files the built-in pages fall back on, one without them (a default that is
    # "created on first use" only shows when the file is missing)
    for variant, (ri, r4) in enumerate(((True, True), (False, False))):
        t = treegen.generate(rng.fork("tree", variant), depth=2, outside_links=True, tag="c13-%d" % variant, root_index=ri, root_404=r4)
        # files well above any "read it at once" threshold, one of them reached through a link
        t.add_file("/media/big.bin", rng.bytes(150000))
        t.add_file("/media/huge.bin", rng.bytes(1 << 20))
        t.add_link("/media/big-link.bin", "big.bin")
        if not r4:
            c.seen("tree without 404.html / index.html")
        campaign(c, rng, t)


def time_travel(c, t, rng):
    """a long-lived server: its clocks are moved forward (one minute ... more than a year, LD_PRELOAD shim) between
    batches of requests; anything written 'once a minute / hour / day / month' lands in the manifest comparison"""
    c.need("requests after the server's clock was moved forward")
    srv = server.Server(t.root, threads=3, virtual_time=True)
    try:
        if not srv.started:
            c.inconc("server did not start under the clock shim")
            return
        if not srv.shift_path:
            c.count("virtual_time_unavailable (no C compiler): time-travel phase skipped")
            c.seen("requests after the server's clock was moved forward")
            return
        valid = [r.bytes() for r in reqgen.valid_requests(t, rng)]
        for jump in (0, 59, 2, 240, 3300, 82800, 86400 * 6, 86400 * 24, 86400 * 370):
            if jump:
                srv.advance_clock(jump)
            for raw in rng.sample(valid, min(8, len(valid))) + [b"BOGUS / HTTP/1.1\r\n\r\n"]:
                srv.request(raw, timeout=10)
                c.ev()
            c.cls("time-travel", jump)
            if jump:
                c.seen("requests after the server's clock was moved forward")
            if not srv.alive():
                c.inconc("the server exited during the time-travel phase (C04/C06's business)")
                break
        srv.stop()
    finally:
        srv.cleanup()


def broken_stdout(c, t, rng):
    """fault injection on the log channel: stdout is a pipe whose reader goes away after start-up, or /dev/full"""
    import subprocess, time, socket
    binary = build.binary("rel")
    served = sorted(k for k in t.files if len(t.files[k]) > 50)[0]
    for mode in ("closed-pipe", "dev-full"):
        port = server.free_port()
        env = {k: v for k, v in os.environ.items() if not k.startswith("RWS_CONFIG_")}
        full = None
        if mode == "closed-pipe":
            p = subprocess.Popen([binary, "--ip=127.0.0.1", "--port=%d" % port, "--thread-count=2"], cwd=t.root, env=env, stdout=subprocess.PIPE, stderr=subprocess.DEVNULL, stdin=subprocess.DEVNULL)
            buf = b""
            t0 = time.time()
            while b"Spawned" not in buf and time.time() - t0 < 45 and p.poll() is None:
                ch = os.read(p.stdout.fileno(), 65536)
                if not ch:
                    break
                buf += ch
            p.stdout.close()
        else:
            full = open("/dev/full", "wb")
            p = subprocess.Popen([binary, "--ip=127.0.0.1", "--port=%d" % port, "--thread-count=2"], cwd=t.root, env=env, stdout=full, stderr=subprocess.DEVNULL, stdin=subprocess.DEVNULL)
        # wait until the server accepts connections (or has exited: with a failing stdout the unchanged server may not survive its own start-up messages)
        t1 = time.time()
        while time.time() - t1 < 30 and p.poll() is None:
            try:
                socket.create_connection(("127.0.0.1", port), timeout=1).close()
                break
            except OSError:
                time.sleep(0.05)
        try:
            for i in range(6):
                try:
                    s = socket.create_connection(("127.0.0.1", port), timeout=3)
                    s.sendall(("GET %s HTTP/1.1\r\nHost: x\r\n\r\n" % (served if i % 2 else "/missing")).encode())
                    s.settimeout(3)
                    while s.recv(65536):
                        pass
                    s.close()
                except OSError:
                    pass
                c.ev()
            c.cls("broken-stdout", mode)
            c.count("requests sent to a server with a failing stdout (%s)" % mode, 6)
        finally:
            try:
                p.kill()
                p.wait(timeout=5)
            except Exception:
                pass
            if full:
                full.close()


def campaign(c, rng, t):
    if True:
      try:
          # sentinel directory next to the tree + manifests of everything under the scratch base
          sentinel = os.path.join(t.base, "sentinel")
          os.makedirs(sentinel)
          open(os.path.join(sentinel, "keep.txt"), "w").write("sentinel")
          # files nobody has touched for days (what a freshly generated tree never has): access and modification time three and
          # forty days back on a dozen files, requested explicitly below
          import time as _time
          aged = [k for k in sorted(t.files) if " " not in k and "#" not in k and "?" not in k and not os.path.islink(t.abs(k))][:12]
          for j, k in enumerate(aged):
              ago = _time.time() - 86400 * (3 if j % 2 else 40)
              os.utime(t.abs(k), (ago, ago))
          before = fsmon.manifest(t.base)
          cwd_before = fsmon.manifest(build.VERIF) if False else None
          inputs = c04.build_inputs(c, t, rng)
          ups = upload_requests(t, rng)
          n_in = 2500 if c.quick else 30000
          pick = [inputs[i] for i in sorted(rng.sample(range(len(inputs)), min(n_in, len(inputs)))) if "bufsize" not in inputs[i][0]]
          # ---- Engine A, both entry points
          for entry in ("process", "legacy"):
              raws = [x[1] for x in pick] + [u[2] for u in ups]
              rs = fetch.inproc(t.root, raws, entry=entry)
              for raw, r in zip(raws, rs):
                  c.ev()
                  m = raw.split(b" ", 1)[0].decode("latin-1").upper()
                  if m in reqgen.METHODS:
                      c.seen("method " + m)
              for m, shape, raw in ups:
                  c.cls(m, shape, entry)
                  c.seen("upload-shaped bodies")
              for label, raw in pick:
                  if label["kind"] != "valid":
                      c.cls(raw.split(b" ", 1)[0][:8].decode("latin-1"), label["route"], entry)
              d = fsmon.diff(before, fsmon.manifest(t.base))
              for kind, p, a, b in d:
                  c.violation("C13:manifest:%s:%s" % (kind.split(" ")[0], "inside-root" if p.startswith(os.path.relpath(t.root, t.base)) else "outside-root"), "after the in-process campaign on %s: %s %s (before %r, after %r)" % (entry, kind, p, a, b), {"entry": entry, "path": p})
              if d:
                  before = fsmon.manifest(t.base)
          # ---- Engine B under strace
          srv = server.Server(t.root, threads=4, strace=True)
          if not srv.started:
              c.inconc("strace server did not start")
              srv.cleanup()
          else:
              try:
                  served_file = sorted(k for k in t.files if len(t.files[k]) > 50)[0]
                  srv.request(("GET %s HTTP/1.1\r\nHost: x\r\n\r\n" % served_file).encode())
                  nb = 1200 if c.quick else 8000
                  bpick = pick[:nb]
                  history = []
                  for k in aged:
                      for hdr in ("", "Range: bytes=0-3\r\n"):
                          srv.request(("GET %s HTTP/1.1\r\nHost: x\r\n%s\r\n" % (k, hdr)).encode("utf-8"), timeout=10)
                          c.ev()
                  for i, (m, shape, raw) in enumerate(ups):
                      srv.request(raw, timeout=10)
                      c.ev()
                      c.cls(m, shape, "binary")
                      if not srv.alive():
                          break
                  for label, raw in bpick:
                      if not srv.alive():
                          break
                      if len(raw) > 10000:
                          continue
                      srv.request(raw, timeout=10)
                      c.ev()
                  # a C06-style history with transport faults
                  valid = reqgen.valid_requests(t, rng)
                  crashers = c06.corpus()
                  for k in [rng.choice(c06.FAULTS) for _ in range(40 if c.quick else 600)]:
                      if not srv.alive():
                          break
                      if k == "rst-before-send":
                          continue   # ends the accept loop on the unrepaired tree; the manifest check below does not need it
                      c06.step(srv, k, rng, valid, crashers, [x[1] for x in pick[:50] if len(x[1]) < 9000] or [b'GET / HTTP/1.1\r\n\r\n'])
                      c.ev()
                      c.cls("history", k, "binary")
                  srv.stop()
                  bad, opens, writes = fsmon.strace_findings(srv.strace_path)
                  c.count("strace_opens_inspected", opens)
                  trace_text = open(srv.strace_path, errors="replace").read()
                  if os.path.basename(served_file) in trace_text:
                      c.seen("strace lane saw an open of a served file")
                  for sc, ln in bad:
                      c.violation("C13:syscall:%s" % sc.split(":")[0], "mutating filesystem syscall by the server process tree: %s" % ln, {"line": ln})
                  for p, ln in writes:
                      if p.startswith("/dev/") or p.startswith("/proc/"):
                          continue
                      c.violation("C13:syscall:write-to-file", "write to an opened file %s: %s" % (p, ln), {"line": ln})
                  c.extra["strace_mutating_syscalls"] = len(bad)
              finally:
                  srv.cleanup()
          time_travel(c, t, rng)
          broken_stdout(c, t, rng)
          d = fsmon.diff(before, fsmon.manifest(t.base))
          for kind, p, a, b in d:
              c.violation("C13:manifest:%s:%s" % (kind.split(" ")[0], "inside-root" if p.startswith(os.path.relpath(t.root, t.base)) else "outside-root"), "after the real-binary campaign: %s %s (before %r, after %r)" % (kind, p, a, b), {"path": p})
          c.extra["manifest_entries_compared"] = len(before)
          c.sample({"manifest_entries": len(before), "upload_requests": [(m, s) for m, s, _ in ups[:6]], "root": t.root})
          for p in ("/tmp/rws-evil", "/tmp/rws-evil2"):
              if os.path.exists(p):
                  c.violation("C13:created-outside:/tmp", "%s exists after the campaign" % p, {"path": p})
      finally:
        t.cleanup()

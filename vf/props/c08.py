"""C08 - Concurrent requests do not influence one another (DESIGN.md section 4, C08)."""
import os, re, socket, threading, time, base64
from .. import core, build, server, httpstrict, oracles, serve, trace
from ..gen import tree as treegen
from . import c07

FORM_ROUTES = ("/form-get-method", "/form-url-encoded-enctype-post-method", "/form-multipart-enctype-post-method", "/file-upload/initiate")


def build_mix(t, rng, count, tag):
    """unique, self-identifying requests: (kind, token, raw)"""
    out = []
    files = sorted(k for k in t.files if len(t.files[k]) > 40 and " " not in k)
    big = [k for k in files if len(t.files[k]) > 30000]
    for i in range(count):
        tok = "TOK%s%05dq" % (tag, i)
        kind = ["static", "static-big", "range", "multirange", "notfound", "garbage", "builtin", "form-get", "form-post", "head", "options", "preflight", "origin", "form-multipart", "upload", "samefile-range", "samefile-range"][i % 17]
        f = files[i % len(files)]
        H = "Host: localhost\r\nX-Token: %s\r\n" % tok
        if kind == "static":
            raw = "GET %s?%s=1 HTTP/1.1\r\n%s\r\n" % (f, tok, H)
        elif kind == "static-big":
            raw = "GET %s HTTP/1.1\r\n%s\r\n" % ((big or files)[i % len(big or files)], H)
        elif kind == "range":
            a = i % 20
            raw = "GET %s HTTP/1.1\r\n%sRange: bytes=%d-%d\r\n\r\n" % (f, H, a, a + 10 + i % 7)
        elif kind == "samefile-range":
            g = (big or files)[0]
            a = (i * 977) % max(1, len(t.files[g]) - 2000)
            raw = "GET %s HTTP/1.1\r\n%sRange: bytes=%d-%d\r\n\r\n" % (g, H, a, a + 1500 + i % 400)
        elif kind == "multirange":
            a = i % 10
            raw = "GET %s HTTP/1.1\r\n%sRange: bytes=%d-%d, %d-%d\r\n\r\n" % (f, H, a, a + 3, a + 8, a + 12 + i % 5)
        elif kind == "notfound":
            raw = "GET /missing/%s.txt HTTP/1.1\r\n%s\r\n" % (tok, H)
        elif kind == "garbage":
            # a long rejected request whose tail looks like form data: if any buffer survives the error path,
            # a later, shorter request on the same worker will show this token
            pad = "&".join("leak%d=%s" % (j, tok) for j in range(rng.choice([1, 20, 120, 400])))
            raw = "%s /x HTTP/1.1\r\n%s\r\ncard=%s&%s" % (rng.choice(["BOGUS" + tok, "GET\xff", "get" + tok]), H, tok, pad)
            if rng.chance(1, 3):
                raw = "GET /x HTTP/9.9\r\n%s\r\ncard=%s&%s" % (H, tok, pad)
        elif kind == "builtin":
            raw = "GET %s HTTP/1.1\r\n%sOrigin: https://%s.example\r\n\r\n" % (["/", "/style.css", "/script.js", "/favicon.svg"][i % 4], H, tok.lower())
        elif kind == "form-get":
            raw = "GET /form-get-method?name=%s&n=%d HTTP/1.1\r\n%s\r\n" % (tok, i, H)
        elif kind == "form-post":
            body = "name=%s&n=%d" % (tok, i)
            raw = "POST /form-url-encoded-enctype-post-method HTTP/1.1\r\n%sContent-Type: application/x-www-form-urlencoded\r\nContent-Length: %d\r\n\r\n%s" % (H, len(body), body)
        elif kind == "head":
            raw = "HEAD %s HTTP/1.1\r\n%sOrigin: https://%s.example\r\n\r\n" % (f, H, tok.lower())
        elif kind == "options":
            raw = "OPTIONS %s HTTP/1.1\r\n%sOrigin: https://%s.example\r\n\r\n" % (f, H, tok.lower())
        elif kind == "preflight":
            raw = "OPTIONS %s HTTP/1.1\r\n%sOrigin: https://%s.example\r\nAccess-Control-Request-Method: PUT\r\nAccess-Control-Request-Headers: x-%s\r\n\r\n" % (f, H, tok.lower(), tok.lower())
        elif kind == "origin":
            raw = "GET %s HTTP/1.1\r\n%sOrigin: https://%s.example\r\n\r\n" % (f, H, tok.lower())
        elif kind == "form-multipart":
            b = "----B%s" % tok
            body = "--%s\r\nContent-Disposition: form-data; name=\"f\"\r\n\r\n%s\r\n--%s--\r\n" % (b, tok, b)
            raw = "POST /form-multipart-enctype-post-method HTTP/1.1\r\n%sContent-Type: multipart/form-data; boundary=%s\r\nContent-Length: %d\r\n\r\n%s" % (H, b, len(body), body)
        else:
            raw = "POST /file-upload/initiate?name=%s&lastModified=1&size=%d HTTP/1.1\r\n%s\r\n" % (tok, i, H)
        out.append((kind, tok, raw))
    return [(k, t, r.encode("utf-8", "surrogateescape") if isinstance(r, str) else r) for k, t, r in out]


def normalise(raw_resp, request):
    """mask the timestamp header; sort the field lines of the form demo pages"""
    m = oracles.mask_volatile(raw_resp)
    target = request.split(b" ", 2)[1] if request.count(b" ") >= 2 else b""
    if any(target.startswith(r.encode()) for r in FORM_ROUTES):
        i = m.find(b"\r\n\r\n")
        if i > 0:
            head, body = m[:i + 4], m[i + 4:]
            lines = sorted(x for x in body.split(b"\r\n"))
            m = head + b"\r\n".join(lines)
    return m


def concurrent_round(srv, mix, rng):
    """all sockets connect first, then every request goes out with one send in a seeded order; returns per-request records"""
    socks = []
    for _ in mix:
        try:
            socks.append(srv.connect(timeout=20))
        except OSError:
            socks.append(None)
    order = list(range(len(mix)))
    rng.shuffle(order)
    delays = [rng.choice([0, 0, 0, 0.0002, 0.001, 0.003]) for _ in mix]
    rec = [None] * len(mix)

    def reader(i):
        s = socks[i]
        buf, end = b"", "eof"
        try:
            while True:
                ch = s.recv(65536)
                if not ch:
                    break
                buf += ch
        except (ConnectionResetError, BrokenPipeError):
            end = "reset"
        except socket.timeout:
            end = "timeout"
        except OSError:
            end = "reset"
        rec[i]["t_eof"] = time.monotonic()
        rec[i]["data"], rec[i]["end"] = buf, end
        try:
            s.close()
        except OSError:
            pass
    threads = []
    for i in order:
        if socks[i] is None:
            rec[i] = {"t_send": 0, "t_eof": 0, "data": b"", "end": "refused", "port": None}
            continue
        if delays[i]:
            time.sleep(delays[i])
        rec[i] = {"t_send": time.monotonic(), "port": socks[i].getsockname()[1]}
        try:
            socks[i].sendall(mix[i][2])
        except OSError:
            pass
        th = threading.Thread(target=reader, args=(i,))
        th.start()
        threads.append(th)
    for th in threads:
        th.join(60)
    return rec


def overlap_stats(rec):
    ev = []
    for r in rec:
        if r and r.get("t_eof") and r.get("t_send"):
            ev.append((r["t_send"], 1))
            ev.append((r["t_eof"], -1))
    ev.sort()
    cur = mx = 0
    for _, d in ev:
        cur += d
        mx = max(mx, cur)
    return mx


def worker_of(srv_stdout, port):
    m = re.search(r"Request \(thread id: (\d+) peer address is [0-9.]+:%d\)" % port, srv_stdout)
    return int(m.group(1)) if m else None


def run(c):
    c.rule = ("multisets of unique, self-identifying requests (own file / range / Origin / query / form values: static files of several sizes, single and multi ranges, 404, 400, built-ins, the form endpoints, HEAD, OPTIONS, "
              "preflights) issued on up to 64 (256) simultaneous connections against servers with 1..16 workers, every request written with one send in a seeded order; each response is compared byte-for-byte with the "
              "response the same request received alone (timestamp header masked, form lines sorted) and scanned for every other connection's token. In-process: the same through the real pool on in-memory transports "
              "(thorough: under ThreadSanitizer). Class = (request kind pair that overlapped, W); non-trivial = different kinds.")
    rng = c.rng
    t = treegen.generate(rng.fork("tree"), depth=2, big=False, tag="c08", sizes=[300, 4096, 9999, 10001, 65536, 65537, 40, 8193])
    for cat in (">= 2 requests overlapping in every round", ">= 2 workers used", "every request kind", "in-process pool round"):
        c.need(cat)
    try:
        # symlinked files in sub-directories (resolving them must not disturb anybody else: no chdir, no shared cursor)
        regular = sorted(k for k in t.files if len(t.files[k]) > 40 and " " not in k)
        for j, d in enumerate(sorted(t.dirs)[:3]):
            tgt = regular[j % len(regular)]
            up = "../" * d.count("/")
            name = "%s/lnk%d.%s" % (d, j, tgt.rsplit(".", 1)[-1] if "." in os.path.basename(tgt) else "txt")
            t.add_link(name, up + tgt[1:])
            t.files[name] = t.files[tgt]   # servable like a file (content of its target)
        ws = (2, 4, 16) if c.quick else (1, 2, 4, 8, 16)
        rounds = 10 if c.quick else 60
        conns = 64
        kinds_seen = set()
        total_cmp = total_bytes = 0
        max_overlap_all = 0
        all_rounds_overlapped = True
        for w in ws:
            srv = server.Server(t.root, threads=w)
            if not srv.started:
                c.inconc("server with %d workers did not start" % w)
                srv.cleanup()
                continue
            try:
                for rd in range(rounds):
                    n = conns if (c.quick or rd % 4) else 256
                    mix = build_mix(t, rng, n, "%dx%d" % (w, rd))
                    # phase 1: each request alone
                    ref = []
                    for i0, (kind, tok, raw) in enumerate(mix):
                        data, end = srv.request(raw, timeout=20)
                        ref.append(data)
                        for j0, (k2, tok2, _) in enumerate(mix):
                            if j0 != i0 and tok2.encode() in data:
                                c.violation("C08:foreign-data:serial:%s-receives-%s" % (kind, k2), "request %d (%s), issued alone after earlier connections were closed, received data carrying the token of request %d (%s): state survives from one connection to the next" % (i0, kind, j0, k2),
                                            {"workers": w, "request_b64": base64.b64encode(raw).decode(), "response_head": data[:400].decode("latin-1")})
                                break
                    if not srv.alive() or len(srv.workers_alive()) < w:
                        c.inconc("a worker was lost during the serial phase (C04/C06's business): %s" % srv.crash_lines()[:1])
                        break
                    # phase 2: the same multiset, concurrently
                    rec = None
                    for attempt in range(3):
                        rec = concurrent_round(srv, mix, rng)
                        mo = overlap_stats(rec)
                        if mo >= 2:
                            break
                    max_overlap_all = max(max_overlap_all, mo)
                    if mo < 2:
                        all_rounds_overlapped = False
                        c.inconc("round without overlapping requests (W=%d)" % w)
                        continue
                    log = srv.stdout_text()
                    workers_used = set()
                    for i, (kind, tok, raw) in enumerate(mix):
                        r = rec[i]
                        c.ev()
                        kinds_seen.add(kind)
                        wk = worker_of(log, r["port"]) if r and r.get("port") else None
                        if wk is not None:
                            workers_used.add(wk)
                        c.cls(kind, w, "overlap>=%d" % min(mo, 8))
                        if r is None or r["end"] in ("refused",):
                            c.inconc("connection refused in the concurrent phase")
                            continue
                        a, b = normalise(ref[i], raw), normalise(r["data"], raw)
                        total_cmp += 1
                        total_bytes += len(b)
                        rp = {"workers": w, "connections": n, "request_b64": base64.b64encode(raw).decode(), "kind": kind, "serial_head": ref[i][:300].decode("latin-1"), "concurrent_head": r["data"][:300].decode("latin-1"), "end": r["end"], "worker": wk}
                        foreign = None
                        for j, (k2, tok2, _) in enumerate(mix):
                            if j != i and (tok2.encode() in r["data"] or tok2.lower().encode() in r["data"]):
                                foreign = (j, k2, tok2)
                                break
                        if foreign:
                            c.violation("C08:foreign-data:%s-receives-%s" % (kind, foreign[1]), "connection %d (%s) received data carrying the token of connection %d (%s)" % (i, kind, foreign[0], foreign[1]), rp)
                        elif a != b:
                            k = next((x for x in range(min(len(a), len(b))) if a[x] != b[x]), min(len(a), len(b)))
                            where = "head" if k < (a.find(b"\r\n\r\n") if b"\r\n\r\n" in a else 0) else "body"
                            c.violation("C08:differs-from-serial:%s:%s" % (kind, "empty" if not b else where), "under concurrency (W=%d, %d connections) the response to a %s request differs from the serial one at byte %d (%d vs %d bytes, end=%s)" % (w, n, kind, k, len(b), len(a), r["end"]), rp)
                    if len(workers_used) >= 2:
                        c.seen(">= 2 workers used")
                    c.count("rounds")
                    if len(c.samples) < 4:
                        c.sample({"workers": w, "connections": n, "max_in_flight_overlap": mo, "workers_that_served": sorted(workers_used), "kinds": sorted(set(k for k, _, _ in mix))})
                    if not srv.alive():
                        c.violation("C08:process-exited-under-load", "the server exited during a concurrent round", {"workers": w})
                        break
            finally:
                srv.cleanup()
        aged_vs_fresh(c, t, rng)
        cold_start(c, t, rng)
        hammer(c, t, rng)
        if all_rounds_overlapped and max_overlap_all >= 2:
            c.seen(">= 2 requests overlapping in every round")
        if len(kinds_seen) >= 16:
            c.seen("every request kind")
        c.extra.update({"responses_compared": total_cmp, "bytes_compared": total_bytes, "max_in_flight_overlap": max_overlap_all})
        engine_a(c, t, rng)
    finally:
        t.cleanup()


def aged_vs_fresh(c, t, rng):
    """The response depends only on the request, the files and the configuration - not on what the process served
    before.  One server is aged with a long mixed history (valid requests of every kind in a seeded order, rejected
    requests, other spellings of the same names); then every request of a reference set is sent to it and, in another
    order, to a freshly started server; the normalised responses must be equal."""
    from ..gen import req as reqgen
    c.need("aged server compared with a fresh one")
    for w in ((1, 4) if c.quick else (1, 2, 4, 8)):
        mix = build_mix(t, rng, 48 if c.quick else 160, "age%d" % w)
        # other spellings: the same paths with upper-cased extension / an appended query / a trailing slash
        extra = []
        for kind, tok, raw in mix[:24]:
            line, rest = raw.split(b"\r\n", 1)
            parts = line.split(b" ")
            if len(parts) == 3 and b"." in parts[1]:
                stem, ext = parts[1].rsplit(b".", 1)
                extra.append(b" ".join([parts[0], stem + b"." + ext.upper(), parts[2]]) + b"\r\n" + rest)
                extra.append(b" ".join([parts[0], parts[1] + b"?v=1", parts[2]]) + b"\r\n" + rest)
                extra.append(b" ".join([parts[0], parts[1] + b"/", parts[2]]) + b"\r\n" + rest)
        junk = [b"BOGUS / HTTP/1.1\r\n\r\n", b"GET / HTTP/9.9\r\n\r\n", b"\xff\xfe\r\n\r\n", b"GET /%zz HTTP/1.1\r\nHost: x\r\n\r\n",
                b"POST /form-url-encoded-enctype-post-method HTTP/1.1\r\nHost: x\r\nContent-Type: application/x-www-form-urlencoded\r\n\r\nleft=over&from=history" + b"&pad=" + b"p" * 3000,
                b"GET /no/such/thing HTTP/1.1\r\nHost: x\r\n\r\n", b"GET /NO/SUCH/THING.HTML HTTP/1.1\r\nHost: x\r\n\r\n"]
        history = [raw for _, _, raw in mix] + extra + junk * 3
        rng.shuffle(history)
        aged = server.Server(t.root, threads=w, virtual_time=True)
        fresh = server.Server(t.root, threads=w)
        try:
            if not aged.started or not fresh.started:
                c.inconc("server did not start")
                continue
            for hi, raw in enumerate(history):
                aged.request(raw, timeout=20)
                if hi % 40 == 39:
                    aged.advance_clock((61, 3700, 90000)[(hi // 40) % 3])   # ... and time passes meanwhile (no-op without the clock shim)
            if not aged.alive():
                c.inconc("the aged server exited during its history (C04/C06's business)")
                continue
            order = list(range(len(mix)))
            rng.shuffle(order)
            got_aged = {}
            for i in order:
                got_aged[i] = aged.request(mix[i][2], timeout=20)[0]
            for i in reversed(range(len(mix))):
                kind, tok, raw = mix[i]
                data = fresh.request(raw, timeout=20)[0]
                c.ev()
                c.cls("aged-vs-fresh", kind, w)
                c.seen("aged server compared with a fresh one")
                a, b = normalise(got_aged[i], raw), normalise(data, raw)
                if a != b:
                    k = next((x for x in range(min(len(a), len(b))) if a[x] != b[x]), min(len(a), len(b)))
                    where = "head" if k < (b.find(b"\r\n\r\n") if b"\r\n\r\n" in b else 0) else "body"
                    c.violation("C08:depends-on-history:%s:%s" % (kind, "empty" if not a else where),
                                "a %s request is answered differently by a server that has served %d connections before and by a freshly started one (first difference at byte %d, %d vs %d bytes)" % (kind, len(history), k, len(a), len(b)),
                                {"workers": w, "request_b64": base64.b64encode(raw).decode(), "kind": kind, "aged_head": got_aged[i][:300].decode("latin-1"), "fresh_head": data[:300].decode("latin-1"), "history_length": len(history)})
        finally:
            aged.cleanup()
            fresh.cleanup()


def cold_start(c, t, rng):
    """the very first requests of a freshly started server arrive on all its workers at the same instant; each answer must be
    the one a warm server gives to that request alone"""
    c.need("cold-start simultaneous first requests")
    warm = server.Server(t.root, threads=2)
    try:
        if not warm.started:
            c.inconc("server did not start")
            return
        for k in range(8 if c.quick else 60):
            w = (8, 4, 16)[k % 3]
            mix = build_mix(t, rng, w, "cold%d" % k)
            ref = [warm.request(raw, timeout=20)[0] for _, _, raw in mix]
            cold = server.Server(t.root, threads=w)
            try:
                if not cold.started:
                    c.inconc("server did not start")
                    continue
                outs = server.simultaneous(cold, [raw for _, _, raw in mix])
                for (kind, tok, raw), a, b in zip(mix, ref, outs):
                    c.ev()
                    c.cls("cold-start", kind, w)
                    c.seen("cold-start simultaneous first requests")
                    na, nb = normalise(a, raw), normalise(b, raw)
                    if na != nb:
                        j = next((x for x in range(min(len(na), len(nb))) if na[x] != nb[x]), min(len(na), len(nb)))
                        c.violation("C08:cold-start:%s:%s" % (kind, "empty" if not nb else ("head" if j < (na.find(b"\r\n\r\n") if b"\r\n\r\n" in na else 0) else "body")),
                                    "among the %d simultaneous first requests of a fresh server a %s request is answered differently from a warm server (first difference at byte %d, %d vs %d bytes)" % (w, kind, j, len(nb), len(na)),
                                    {"workers": w, "kind": kind, "request_b64": base64.b64encode(raw).decode(), "warm_head": a[:300].decode("latin-1"), "cold_head": b[:300].decode("latin-1")})
            finally:
                cold.cleanup()
    finally:
        warm.cleanup()


def _hammer_client(args):
    """one client process: requests its files back to back until the deadline; returns (requests, [(file, bytes, end)])"""
    import socket as _s
    ip, port, files, refs, secs, k = args
    stop = time.monotonic() + secs
    i, n, bad = k, 0, []
    while time.monotonic() < stop and len(bad) < 3:
        f = files[i % len(files)]
        i += 1 + k % 3
        data, end = b"", "eof"
        try:
            so = _s.socket(_s.AF_INET6 if ":" in ip else _s.AF_INET)
            so.settimeout(20)
            so.connect((ip, port))
            so.sendall(("GET %s HTTP/1.1\r\nHost: x\r\n\r\n" % f).encode())
            while True:
                ch = so.recv(65536)
                if not ch:
                    break
                data += ch
        except _s.timeout:
            end = "timeout"
        except OSError:
            end = "reset"
        finally:
            try:
                so.close()
            except Exception:
                pass
        n += 1
        if oracles.mask_volatile(data) != refs[f]:
            bad.append((f, data, end))
    return n, bad


def hammer(c, t, rng):
    """many client PROCESSES request different static files back to back for a few seconds: a rare cross-worker race
    (one in ten thousand requests) needs volume, not variety"""
    import multiprocessing
    files = sorted(k for k in t.files if 40 < len(t.files[k]) < 20000 and " " not in k)
    files = [k for k in files if k in t.links][:4] + [k for k in files if k not in t.links][:10]
    if len(files) < 4:
        return
    secs = 4 if c.quick else 30
    nclients = 12
    for w in ((8,) if c.quick else (2, 4, 8, 16)):
        srv = server.Server(t.root, threads=w)
        if not srv.started:
            srv.cleanup()
            continue
        try:
            refs = {}
            for f in files:
                data, end = srv.request(("GET %s HTTP/1.1\r\nHost: x\r\n\r\n" % f).encode())
                refs[f] = oracles.mask_volatile(data)
            ctx = multiprocessing.get_context("fork")
            with ctx.Pool(nclients) as pool:
                res = pool.map(_hammer_client, [(srv.ip, srv.port, files, refs, secs, k) for k in range(nclients)])
            count = sum(n for n, _ in res)
            bad = [b for _, bl in res for b in bl]
            c.ev(count)
            c.count("hammer_requests", count)
            c.cls("hammer", w)
            for f, data, end in bad[:3]:
                other = next((g for g in files if g != f and t.files[g][:40] in data), None)
                c.violation("C08:hammer:%s" % ("another-files-content" if other else "differs-from-serial"), "under %d concurrent clients (W=%d) GET %s returned %d bytes that differ from its serial response%s (end=%s)" % (nclients, w, f, len(data), "; they carry the content of " + other if other else "", end), {"workers": w, "file": f, "other": other})
        finally:
            srv.cleanup()


def engine_a(c, t, rng):
    """the same mix through the real ThreadPool + Server::process on in-memory transports, with hook perturbation"""
    lanes = ("rel",) if c.quick else ("rel", "tsan")
    for lane in lanes:
        vh = build.harness(lane)
        for w in ((2, 8) if c.quick else (1, 2, 4, 8, 16)):
            mix = build_mix(t, rng, 60, "p%d" % w)
            # serial reference through the probe
            cases = [serve.case("s%d" % i, raw) for i, (k, tok, raw) in enumerate(mix)]
            obs = core.run_cases(cases, cwd=t.root, lane="rel")
            lines = ["conc%d conc %d %d" % (w, len(mix), (rng.u64() >> 1) | 1)]
            for i, (k, tok, raw) in enumerate(mix):
                cs = serve.case("j%d" % i, raw)
                lines.append(cs.line())
            d = core.scratch("conc-")
            import subprocess, shutil
            try:
                sp, out = os.path.join(d, "spec"), os.path.join(d, "out")
                open(sp, "w").write("\n".join(lines) + "\n")
                p = subprocess.run([vh, "pool", str(w), sp, out, "10"], cwd=t.root, stdout=subprocess.DEVNULL, stderr=subprocess.PIPE, timeout=600)
                scns = trace.parse(out) if os.path.exists(out) else []
                err = p.stderr.decode("utf-8", "replace")
            finally:
                shutil.rmtree(d, ignore_errors=True)
            if not scns:
                c.inconc("in-process concurrent round produced nothing (lane %s)" % lane)
                continue
            s = scns[0]
            c.seen("in-process pool round")
            by_case = {cid: (res, acc) for (tid, cid, res, wr, acc, fl) in s.resps}
            for i, (k, tok, raw) in enumerate(mix):
                o = obs.get("s%d" % i)
                c.ev()
                c.cls("pool", k, w, lane)
                if o is None or o.outcome != "ok":
                    continue
                want = serve.Served(o).accepted
                got = by_case.get("j%d" % i, (None, b""))[1]
                if normalise(want, raw) != normalise(got, raw):
                    foreign = next((k2 for j, (k2, tok2, _) in enumerate(mix) if j != i and tok2.encode() in got), None)
                    c.violation("C08:pool:%s:%s" % ("foreign-data" if foreign else "differs-from-serial", k), "in-process pool (W=%d, lane %s): response to a %s request differs from the serial one%s" % (w, lane, k, " and carries another request's token" if foreign else ""),
                                {"workers": w, "lane": lane, "request_b64": base64.b64encode(raw).decode()})
            if lane == "tsan":
                reports = err.count("WARNING: ThreadSanitizer")
                c.count("tsan_reports", reports)
                if reports:
                    m = re.search(r"WARNING: ThreadSanitizer: ([^\n]+)\n(.{0,2000})", err, re.S)
                    frames = re.findall(r"#\d+ (rws::[^\s]+)", m.group(2) if m else "")
                    c.violation("C08:tsan:%s:%s" % (m.group(1).split("(")[0].strip().replace(" ", "-") if m else "report", frames[0] if frames else "?"), "ThreadSanitizer report in the concurrent request path: %s" % (m.group(0)[:700] if m else ""), {"lane": lane})

"""C05 - Responses are well-formed, self-consistent HTTP and delivered in full (DESIGN.md section 4, C05)."""
import re
from .. import core, serve, fetch, server, httpstrict, oracles
from ..gen import tree as treegen, req as reqgen
from . import c04, c08

DECOR = {"cr": "\r", "lf": "\n", "crlf": "\r\n", "nul": "\x00", "colon": ":", "colon-space": ": ", "crlf-header": "\r\nX-Injected: 1", "lf-header": "\nX-Injected: 1", "ls": " ", "nel": "\u0085",
         "crlfcrlf": "\r\n\r\nHTTP/1.1 200 OK\r\n", "tab": "\t", "cr-header": "\rX-Injected: 1"}
REFLECT_FIELDS = ["Origin", "Access-Control-Request-Method", "Access-Control-Request-Headers", "Range", "Content-Type", "Host", "target", "body"]


def canary_request(method, path, field, decor_name, canary):
    decor = DECOR[decor_name]
    val = canary + decor + canary + "z"
    hs = {"Host": "localhost", "Origin": "https://o.example", "Access-Control-Request-Method": "PUT", "Access-Control-Request-Headers": "x-a"}
    plain = dict(hs)
    target, body = path, b""
    ptarget, pbody = path, b""
    if field == "target":
        target = path + "?" + val.replace(" ", "")
        ptarget = path + "?" + (canary + canary + "z")
    elif field == "body":
        body = val.encode("utf-8")
        pbody = (canary + canary + "z").encode()
        hs["Content-Length"] = str(len(body))
        plain["Content-Length"] = str(len(pbody))
    else:
        hs[field] = val
        plain[field] = canary + canary + "z"

    def ser(m, tg, h, b):
        return ("%s %s HTTP/1.1\r\n" % (m, tg)).encode("utf-8") + "".join("%s: %s\r\n" % kv for kv in h.items()).encode("utf-8") + b"\r\n" + b
    return ser(method, target, hs, body), ser(method, ptarget, plain, pbody)


def unreadable_overrides(c, rng, frame):
    import os
    for kind, target in (("proc-mem", "/proc/self/mem"), ("directory", "."), ("dangling", "no-such-target"), ("fifo-like-dev", "/dev/null")):
        t = treegen.generate(rng.fork("unreadable", kind), depth=0, n_files=2, symlinks=False, plant_secrets=False, tag="c05-unreadable", root_index=False, root_404=False, root_name="root")
        srv = None
        try:
            for name in ("404.html", "index.html", "style.css", "script.js", "favicon.svg"):
                p = t.abs("/" + name)
                if os.path.lexists(p):
                    os.unlink(p)
                os.symlink(target, p)
            srv = server.Server(t.root, threads=2)
            if not srv.started:
                c.inconc("server did not start")
                continue
            for m in ("GET", "HEAD", "OPTIONS"):
                for path in ("/", "/style.css", "/script.js", "/favicon.svg", "/missing-file", "/404.html", "/index.html"):
                    raw = ("%s %s HTTP/1.1\r\nHost: x\r\n\r\n" % (m, path)).encode()
                    data, end = srv.request(raw, timeout=10)
                    if data:
                        frame(raw, {"route": "unreadable-override:" + kind, "el": "none", "kind": "valid"}, data, "binary")
            c.cls("unreadable-override", kind)
        finally:
            if srv:
                srv.cleanup()
            t.cleanup()


def long_stall(t, rng, result):
    """runs in a background thread for the whole campaign: a client requests a 24 MiB file, reads nothing for 18 s (a paused
    download), then reads everything; result = dict filled with what arrived"""
    import socket, time, hashlib
    name = "/stall24m.bin"
    data = rng.bytes(1 << 20) * 24
    # a tree of its own: the other phases enumerate the files of theirs (byte-wise transport scripts over 24 MiB take minutes)
    t = treegen.generate(rng.fork("stall-tree"), depth=0, n_files=2, symlinks=False, plant_secrets=False, tag="c05-stall", root_name="root")
    t.add_file(name, data)
    srv = server.Server(t.root, threads=2)
    try:
        if not srv.started:
            result["error"] = "server did not start"
            return
        s = socket.socket()
        s.settimeout(60)
        buf = b""
        end = "eof"
        try:
            s.connect((srv.ip, srv.port))
            s.sendall(("GET %s HTTP/1.1\r\nHost: x\r\n\r\n" % name).encode())
            time.sleep(18)
            chunks = []
            while True:
                ch = s.recv(1 << 20)
                if not ch:
                    break
                chunks.append(ch)
            buf = b"".join(chunks)
        except socket.timeout:
            end = "timeout"
        except OSError:
            end = "reset"
        finally:
            s.close()
        head, _, body = buf.partition(b"\r\n\r\n")
        m = re.search(rb"(?i)content-length: *(\d+)", head)
        result.update({"announced": int(m.group(1)) if m else None, "received": len(body), "end": end, "same": hashlib.sha256(body).digest() == hashlib.sha256(data).digest(), "status_line": head.split(b"\r\n", 1)[0].decode("latin-1"), "size": len(data)})
    finally:
        srv.cleanup()
        t.cleanup()


def slow_readers(c, t, rng):
    import socket, time, hashlib
    c.need("slow reader received a large body")
    sizes = [65536, 300001, 1 << 20] + ([] if c.quick else [4 << 20])
    files = {}
    for n in sizes:
        name = "/slow%d.bin" % n
        t.add_file(name, rng.bytes(n))
        files[name] = t.files[name]
    srv = server.Server(t.root, threads=2)
    try:
        if not srv.started:
            c.inconc("server did not start")
            return
        for name, data in files.items():
            L = len(data)
            for hdr, want_status in ((None, 200), ("bytes=0-", 206), ("bytes=1-%d" % (L - 2), 206), ("bytes=0-9, %d-%d, 5-5" % (L // 2, L - 1), 206)):
                raw = ("GET %s HTTP/1.1\r\nHost: x\r\n%s\r\n" % (name, ("Range: %s\r\n" % hdr) if hdr else "")).encode()
                s = socket.socket()
                s.setsockopt(socket.SOL_SOCKET, socket.SO_RCVBUF, 2048)
                s.settimeout(30)
                buf, end = b"", "eof"
                try:
                    s.connect((srv.ip, srv.port))
                    s.sendall(raw)
                    k = 0
                    while True:
                        ch = s.recv(rng.choice([1, 100, 1500, 4096, 65536]))
                        if not ch:
                            break
                        buf += ch
                        k += 1
                        if k % 40 == 0:
                            time.sleep(0.002)
                except socket.timeout:
                    end = "timeout"
                except OSError:
                    end = "reset"
                finally:
                    s.close()
                c.ev()
                c.cls("slow-reader", L, "whole" if not hdr else ("multi" if "," in hdr else "single"))
                r = httpstrict.parse(buf)
                rp = {"file": name, "size": L, "range": hdr, "received": len(buf), "end": end, "response_head": buf[:300].decode("latin-1")}
                cl = r.get("content-length")
                if end == "timeout" and not buf:
                    c.inconc("slow reader: no byte within 30 s")
                    continue
                if r.status != want_status:
                    c.count("slow_reader_status_%s_not_judged_here" % r.status)
                    continue
                if hdr and "," in hdr:
                    # no Content-Length on a multipart body: complete = the three parts and the final delimiter are there
                    ps, errs = httpstrict.multipart_byteranges(r.body, r.get("content-type") or "")
                    if errs or len(ps) != 3 or any(pp.errors for pp in ps):
                        c.violation("C05:delivery:truncated-for-slow-reader:multi", "a reader with a small receive window got %d bytes of a three-part body that does not parse to its end: %s" % (len(r.body), (errs or [pp.errors for pp in ps])[:2]), rp)
                    else:
                        c.seen("slow reader received a large body")
                    continue
                if cl is None or not cl.isdigit() or int(cl) != len(r.body):
                    c.violation("C05:delivery:truncated-for-slow-reader:%s" % ("whole" if not hdr else ("multi" if "," in hdr else "single")),
                                "a reader with a small receive window got %d body bytes of the %s announced (connection ended with %s)" % (len(r.body), cl, end), rp)
                    continue
                if not hdr and r.body != data:
                    c.violation("C05:delivery:wrong-bytes-for-slow-reader", "the body received by a slow reader differs from the file (sha %s vs %s)" % (hashlib.sha256(r.body).hexdigest()[:12], hashlib.sha256(data).hexdigest()[:12]), rp)
                    continue
                c.seen("slow reader received a large body")
    finally:
        srv.cleanup()


def run(c):
    c.rule = ("(1) every response to the C04 input space (all methods, routes, error paths, both entry points, real binary) goes through an independent strict HTTP/1.1 parser with framing rules; "
              "(2) reflection: a unique canary decorated with CR / LF / CRLF / NUL / ':' / ': ' / U+2028 / 'CRLF header' in Origin, Access-Control-Request-*, Range, Content-Type, Host, target and body must not change the "
              "set of response header names nor start a line; (3) delivery: short-write scripts (constant chunk 1..64, first call accepts j bytes for every j over the head) must deliver the same bytes as an accept-all "
              "transport; on the real binary a reader with a 2 KiB receive window that pauses between reads must receive bodies of 64 KiB .. 4 MiB in full, and a client that pauses for 18 s in the middle of a 24 MiB download (running in the background for the whole campaign) still receives all of it. Class = (status, route, method, decoration kind, script kind); non-trivial = decorated or short-write.")
    rng = c.rng
    t = treegen.generate(rng.fork("tree"), depth=2, tag="c05")
    for m in reqgen.METHODS:
        c.need("method " + m)
    c.need("short-write script per head byte")
    c.need("engine B responses")
    c.need("reflection cases")
    import threading
    stall = {}
    c.need("a download paused for 18 s arrived in full")
    stall_thread = threading.Thread(target=long_stall, args=(t, rng.fork("stall"), stall))
    stall_thread.start()
    try:
        inputs = [x for x in c04.build_inputs(c, t, rng) if "bufsize" not in x[0]]
        f = sorted(k for k in t.files if 50 < len(t.files[k]) < 3000)[0]
        for m in reqgen.METHODS:
            inputs.append(({"route": "method-" + m, "el": "none", "kind": "valid"}, ("%s %s HTTP/1.1\r\nHost: x\r\nOrigin: https://a.example\r\n\r\n" % (m, f)).encode()))
            inputs.append(({"route": "method-" + m, "el": "none", "kind": "valid"}, ("%s /nope HTTP/1.1\r\nHost: x\r\n\r\n" % m).encode()))
        if c.quick:
            keep = [inputs[i] for i in sorted(rng.sample(range(len(inputs)), min(4000, len(inputs))))] + inputs[-18:]
        else:
            keep = inputs

        # ---- (1) framing
        def frame(raw, label, resp, entry):
            if not resp:
                return
            klass, method, _, _ = oracles.request_line(raw)
            if method is None and b" " in raw[:12]:
                method = raw.split(b" ", 1)[0].decode("latin-1").strip()
            nobody = oracles.expects_no_body(raw, resp)
            r = httpstrict.parse(resp, head_request=nobody)
            c.ev()
            if method in reqgen.METHODS and r.status:
                c.seen("method " + method)
            if r.status:
                c.cls(r.status, label["route"], method, "plain", entry)
            for e in r.errors:
                e0 = re.sub(r"\d+", "N", e)
                e0 = re.sub(r"b?'[^']*'", "_", e0)[:70]
                c.violation("C05:framing:%s:%s" % (e0.replace(" ", "-"), "production" if entry != "legacy" else "legacy"), "response to %r (%s) is not well-formed: %s" % (raw[:60], entry, e),
                            {"request_b64": fetch.b64(raw), "entry": entry, "response_head": resp[:600].decode("latin-1")})
            ct = r.get("content-type") or ""
            if ct.lower().startswith("multipart/byteranges") and not nobody and r.status == 206:
                ps, errs = httpstrict.multipart_byteranges(r.body, ct)
                if errs:
                    c.violation("C05:framing:multipart-structure", "multipart/byteranges body unreadable: %s" % errs[:2], {"request_b64": fetch.b64(raw), "entry": entry})

        for entry in ("process", "legacy"):
            rs = fetch.inproc(t.root, [x[1] for x in keep], entry=entry)
            for (label, raw), r in zip(keep, rs):
                if r.end == "missing":
                    c.inconc("no observation")
                    continue
                frame(raw, label, r.response, entry)
        srv = server.Server(t.root, threads=4)
        try:
            if srv.started:
                small = [x for x in keep if len(x[1]) <= 10000]
                pick = [small[i] for i in sorted(rng.sample(range(len(small)), min(300 if c.quick else 5000, len(small))))] + keep[-18:]

                def restart(old):
                    old.cleanup()
                    s = server.Server(t.root, threads=4)
                    return s if s.started else None
                rs, srv = fetch.binary(srv, [x[1] for x in pick], restart=restart, threads=4)
                for (label, raw), r in zip(pick, rs):
                    if r.response:
                        c.seen("engine B responses")
                        if not (len(raw) > 10000 and r.end == "reset"):
                            frame(raw, label, r.response, "binary")
            else:
                c.inconc("server did not start")
        finally:
            if srv:
                srv.cleanup()

        # ---- (3b) delivery over a real socket that accepts the response in pieces: a reader with a 2 KiB receive
        # buffer that pauses between reads, for bodies of 64 KiB .. 4 MiB (whole file, single range, several ranges)
        slow_readers(c, t, rng)

        # ---- (1b) framing when a root override file exists but cannot be read (a link to /proc/self/mem reads as EIO even for
        # root; a link to a directory; a dangling link): whatever the status, status line and framing must be well-formed
        unreadable_overrides(c, rng, frame)

        # ---- (2) reflection
        work = []
        n = 0
        for method, path in (("GET", f), ("OPTIONS", f), ("GET", "/"), ("POST", "/form-url-encoded-enctype-post-method"), ("GET", "/form-get-method"), ("PUT", "/nope"), ("HEAD", f)):
            for field in REFLECT_FIELDS:
                for dn in DECOR:
                    if c.quick and (n % 3) and dn not in ("crlf-header", "lf-header", "cr-header"):
                        n += 1
                        continue
                    n += 1
                    canary = "CANARY%04dq" % (n % 10000)
                    dec, plain = canary_request(method, path, field, dn, canary)
                    work.append((method, path, field, dn, canary, dec, plain))
        for entry in ("process", "legacy"):
            rd = fetch.inproc(t.root, [w[5] for w in work], entry=entry)
            rpn = fetch.inproc(t.root, [w[6] for w in work], entry=entry)
            for w, a, b in zip(work, rd, rpn):
                method, path, field, dn, canary, dec, plain = w
                c.ev()
                c.cls("reflect", field, dn, method, entry)
                c.seen("reflection cases")
                if a.crashed or b.crashed or not a.response or not b.response:
                    c.count("reflection cases without a response pair (crash: C04's business)")
                    continue
                nb = method in ("HEAD", "OPTIONS")
                ra, rb = httpstrict.parse(a.response, head_request=nb), httpstrict.parse(b.response, head_request=nb)
                rp = {"field": field, "decoration": dn, "method": method, "path": path, "entry": entry, "request_b64": fetch.b64(dec), "response_head": a.response[:700].decode("latin-1")}
                head = ra.raw_head if ra.raw_head else a.response.split(b"\r\n\r\n")[0]
                lines = re.split(rb"\r\n|\r|\n", head)
                started = [ln for ln in lines[1:] if ln.startswith(canary.encode()) or ln.startswith(b"X-Injected")]
                if started:
                    c.violation("C05:reflection:header-line-split:%s:%s" % (field, dn), "request text in %s (%s) starts a line of the response head: %r" % (field, dn, started[0][:60]), rp)
                    continue
                # a decoration may legitimately end the request's header block early (fewer request headers => fewer
                # grants); what must never happen is that request text ADDS a response header
                extra = sorted(set(ra.names()) - set(rb.names()))
                if ra.status == rb.status and extra:
                    c.violation("C05:reflection:header-set-changed:%s:%s" % (field, dn), "decorated %s changes the response header names: extra %r" % (field, extra[:4]), rp)
                for e in ra.errors:
                    if "bare CR" in e or "header line without" in e or "not a token" in e:
                        c.violation("C05:reflection:malformed-head:%s:%s" % (field, dn), "decorated %s yields a malformed head: %s" % (field, e), rp)
                        break

        # ---- (3) delivery under short writes
        base_reqs = [x for x in keep if x[0]["kind"] == "valid"][: (40 if c.quick else 400)]
        full = fetch.inproc(t.root, [x[1] for x in base_reqs], entry="process")
        cases, meta = [], {}
        k = 0
        heads_covered = 0
        for (label, raw), fr in zip(base_reqs, full):
            if fr.crashed or not fr.response:
                continue
            head_len = fr.response.find(b"\r\n\r\n") + 4
            scripts = ["chunk:%d" % j for j in (range(1, 65) if not c.quick else [1, 2, 3, 7, 16, 63, 64])]
            js = range(1, head_len + 3) if (not c.quick or k < 6) else sorted(set([1, 2, head_len - 1, head_len, head_len + 1] + [rng.range(1, head_len + 2) for _ in range(10)]))
            if not c.quick or k < 6:
                heads_covered += 1
            scripts += ["first:%d" % j for j in js]
            for sc in scripts:
                cid = "d%d" % len(cases)
                cases.append(serve.case(cid, raw, write=sc))
                meta[cid] = (label, raw, sc, fr.response)
            k += 1
        if heads_covered:
            c.seen("short-write script per head byte")
        obs = core.run_cases(cases, cwd=t.root)
        for cid, (label, raw, sc, want) in meta.items():
            o = obs.get(cid)
            c.ev()
            c.cls("delivery", sc.split(":")[0], label["route"])
            if o is None or o.outcome == "missing":
                c.inconc("no observation")
                continue
            sv = serve.Served(o)
            rp = {"script": sc, "request_b64": fetch.b64(raw), "offered_accepted": sv.writes[:6], "delivered": len(sv.accepted), "produced": len(want)}
            if o.outcome in ("panic", "died", "timeout"):
                c.crash("Server::process(short-write transport)", o, None, rp)
                continue
            if c08.normalise(sv.accepted, raw) != c08.normalise(want, raw):   # timestamp masked, form-page lines sorted (their order is unspecified)
                c.violation("C05:delivery:truncated-under-short-write:%s" % sc.split(":")[0], "transport script %s: %d of %d response bytes reached the peer (write returned Ok(n < len) and the rest was never written)" % (sc, len(sv.accepted), len(want)), rp)
            if len(c.samples) < 5 and cid.endswith("7"):
                c.sample({"script": sc, "route": label["route"], "produced": len(want), "delivered": len(sv.accepted), "write_calls": len(sv.writes)})
        # the paused download that has been running in the background since the start
        stall_thread.join(120)
        c.ev()
        c.cls("paused-download", 18)
        if stall_thread.is_alive() or "error" in stall or "received" not in stall:
            c.inconc("the paused download did not finish: %s" % (stall.get("error") or "still running"))
        elif stall["announced"] != stall["size"] or stall["received"] != stall["size"] or not stall["same"]:
            c.violation("C05:delivery:truncated-after-a-pause", "a client that paused for 18 s in the middle of a 24 MiB download received %s of the %s body bytes announced (%s, connection ended with %s)" % (stall["received"], stall["announced"], stall["status_line"], stall["end"]), dict(stall))
        else:
            c.seen("a download paused for 18 s arrived in full")
    finally:
        if stall_thread.is_alive():
            stall_thread.join(120)
        t.cleanup()

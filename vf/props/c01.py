"""C01 - Requests cannot read files outside the served directory (DESIGN.md section 4, C01)."""
import os, re
from .. import core, fetch, server, httpstrict
from ..gen import tree as treegen

CLIMB = ["..", "..", "..", "%2e%2e", "%2E%2E", ".%2e", "%2e.", "..%2f", "..%2F", "%2e%2e%2f", "%2E%2E%2F", "..\\", "%5c..", "%5C..", "..%5c", "..%5C", "....", "....//", ".", "", "%2e", "..%00", "..;", "..%20", " ..", "...",
         "..%252f", "..%c0%af", "..%2F..%2F", "..%2f..%2f", "%2F..", "%2f.."]
# encoded separators glued to the following name: one literal segment that becomes '../name' if anything decodes it
GLUE = ["..%2F", "..%2f", "..%5C", "..%5c", "%2E%2E%2F", "%2e%2e%2f", "..%2F..%2F", "..%2f..%2f", "..%252F", ".%2E%2F", "..%2F.%2F"]


def climbs(target):
    """does the literal target climb above the root? (strip ?query/#fragment, no percent-decoding)"""
    p = target.split("?", 1)[0].split("#", 1)[0]
    depth = 0
    for seg in p.split("/"):
        if seg == "..":
            depth -= 1
            if depth < 0:
                return True
        elif seg in (".", ""):
            continue
        else:
            depth += 1
    return False


def features(target):
    f = set()
    p = target.split("?", 1)[0].split("#", 1)[0]
    if "/../" in p or p.endswith("/..") or p.startswith("../"):
        f.add("dotdot")
    if "%2e" in p.lower():
        f.add("encoded-dot")
    if "%2f" in p.lower() or "%5c" in p.lower():
        f.add("encoded-slash")
    if "%2F" in p or "%5C" in p or "%2E" in p:
        f.add("upper-case-escape")
    if "\\" in p:
        f.add("backslash")
    if "//" in p:
        f.add("double-slash")
    if not p.startswith("/"):
        f.add("no-leading-slash")
    if p.startswith("//"):
        f.add("authority-like")
    if "://" in target:
        f.add("absolute-form")
    if "?" in target:
        f.add("query")
    if "#" in target:
        f.add("fragment")
    if "/./" in p or p.endswith("/."):
        f.add("dot")
    if p.endswith("/") and len(p) > 1:
        f.add("trailing-slash")
    if "...." in p or "..." in p:
        f.add("odd-dots")
    return f


def gen_targets(t, rng, n):
    """targets aimed at the secrets planted above the root and at in-root files"""
    files = sorted(t.files)
    dirs = sorted(t.dirs) or [""]
    secret_names = sorted(set(os.path.basename(p) for p in t.secrets)) + ["sibling/secret.txt", "root2/secret.txt", "rootsecret/secret.txt", "shared/neighbour.txt", "shared/shared.txt", "root/" + (files[0][1:] if files else "x")]
    linkdirs = [k for k, v in t.links.items() if os.path.isdir(t.abs(k))]
    out = []
    # deterministic core: k climbing segments in front / in the middle / after a symlinked directory
    for name in secret_names:
        for k in range(0, 9):
            out.append("/" + "../" * k + name)
            out.append("/" + "../" * k + name.replace(".txt", "").replace(".html", ""))      # .html fallback on secrets
        for d in dirs[:3] + [x for x in dirs if "/." in x][:4]:
            depth = d.count("/")
            for extra in (0, 1, 2, 3):
                out.append(d + "/" + "../" * (depth + extra) + name)
        # directories whose names contain URL delimiters: where the path ends is decided twice (containment check, file lookup)
        for d in [x for x in dirs if any(ch in x for ch in "#?%&;=")]:
            depth = d.count("/")
            for extra in (1, 2, 3):
                for suffix in ("", "?v=1", "#f", "?v=1#f", "#f?v=1"):
                    out.append(d + "/" + "../" * (depth + extra) + name + suffix)
        for g in GLUE:
            out.append("/" + g + name)
            out.append("/" + g + g + name)
            for d in dirs[:2]:
                out.append(d + "/" + g * (d.count("/") + 1) + name)
                out.append(d + "/" + g * (d.count("/") + 2) + name)
        for ld in linkdirs[:2]:
            for extra in (1, 2, 3, 4):
                out.append(ld + "/" + "../" * extra + name)
    # an absolute path glued behind extra slashes ("//etc/hostname"): a path join that lets an absolute argument replace the base
    for sp in sorted(t.secrets)[:6] + ["/etc/hostname", "/etc/passwd"]:
        for lead in ("/", "//", "///", "/./", "/%2F", "/.//"):
            out.append(lead + sp.lstrip("/"))
            out.append(lead + sp)
    for i in range(n):
        segs = []
        for _ in range(rng.range(1, 7)):
            r = rng.below(10)
            if r < 4:
                segs.append(rng.choice(CLIMB))
            elif r < 6 and dirs:
                segs.append(rng.choice(dirs).strip("/").split("/")[0] or "sub")
            elif r < 8:
                segs.append(rng.choice(secret_names))
            else:
                segs.append(rng.choice(files).strip("/").split("/")[-1] if files else "a")
        lead = rng.choice(["/", "/", "/", "", "//", "//host/", "http://host/", "http://localhost:7878/", "/./", "\\"])
        tgt = lead + "/".join(segs)
        tgt += rng.choice(["", "", "", "?q=1", "#f", "?a=../b#c", "/", "//"])
        out.append(tgt)
    # in-root sanity targets (must keep working: the monitor must not only see errors)
    for f in files[:6]:
        out.append(f)
    for k, v in t.links.items():
        out.append(k)
        if os.path.isdir(t.abs(k)):
            out.append(k + "/inner.txt")
    seen, uniq = set(), []
    for x in out:
        if x not in seen and " " not in x and "\r" not in x and "\n" not in x:
            seen.add(x)
            uniq.append(x)
    return uniq


RANGES = [None, "bytes=0-", "bytes=2-9", "bytes=0-3, 8-12"]


def scan(c, t, res, target, rng_form, entry, engine):
    """oracle for one response"""
    body = res.response
    fs = features(target)
    climb = climbs(target)
    rp = {"target": target, "range": rng_form, "entry": entry, "engine": engine, "request_b64": fetch.b64(res.raw_request), "tree": t.spec(), "response_head": body[:300].decode("latin-1")}
    feat = "+".join(sorted(fs - {"query", "fragment", "trailing-slash"})) or "plain"
    # (1) marker containment
    for path, mk in t.secrets.items():
        if mk in body:
            c.violation("C01:disclosure:feature=%s:range=%s" % (feat, "yes" if rng_form else "no"),
                        "response to %r (%s) contains the marker of %s, a file outside the served root %s" % (target, entry, path, t.root), rp)
            return
    if not body:
        return
    r = httpstrict.parse(body)
    if r.errors and not r.status:
        return
    if r.status and r.status < 400:
        for mk, path in t.allowed_outside.items():
            if mk in body:
                c.seen("a symlink-allowed outside file served")
        if any(mk in body for mk in t.markers):
            c.seen("a legitimate in-root 200")
    # (2) climb => error
    if climb:
        if r.status and r.status >= 400:
            c.seen("a climbing target answered >= 400 (%s)" % entry)
            c.count("climb_refused")
        allowed = t.markers.get
        if r.status and r.status < 400:
            c.violation("C01:climb-not-refused:feature=%s:status=%dxx" % (feat, r.status // 100), "target %r climbs above the root but was answered %d" % (target, r.status), rp)
        elif r.status:
            for mk, up in list(t.markers.items()):
                if mk in body and up != "/404.html":
                    c.violation("C01:file-bytes-in-error-for-climb", "error response to climbing target %r carries bytes of %s" % (target, up), rp)
                    break


def run(c):
    c.rule = ("targets from a segment grammar ('..', '.', empty, names, %2e%2e, ..%2f, ..\\\\, '....//', repeated/trailing slashes, ?query, #fragment, no leading slash, //host/, absolute-form) with 0..8 climbing "
              "segments in front, in the middle and after a symlinked directory, each without Range and with open / closed / multi ranges; on trees of depth 0..4 with uniquely marked secrets at every ancestor "
              "level, a sibling directory and next to owner-allowed symlink targets; both entry points and the shipped binary. Oracle: no secret marker in any response; climbing target => status >= 400. "
              "Class = (segment-feature set, tree depth, entry point, range form); non-trivial = has a '..'/encoded/odd segment.")
    rng = c.rng
    ntrees = 10 if c.quick else 60
    per_tree = 250 if c.quick else 1200
    for cat in ("a climbing target answered >= 400 (process)", "a climbing target answered >= 400 (legacy)", "a legitimate in-root 200", "a symlink-allowed outside file served", "engine B responses"):
        c.need(cat)
    for ti in range(ntrees):
        depth = ti % 5
        t = treegen.generate(rng.fork("tree", ti), depth=depth, outside_links=True, tag="c01-%d" % ti)
        srv = None
        try:
            # directories that often get special treatment (exemptions for ACME challenges, hidden files, VCS data ...)
            for special in ("/.well-known", "/.well-known/acme-challenge", "/.git", "/.hidden", "/static", "/assets", "/cgi-bin", "/C#", "/q?x", "/p%41", "/a&b", "/semi;c", "/eq=e", "/C#/in#ner"):
                if special not in t.dirs:
                    t.add_dir(special)
                    mk = treegen.marker("MK", "c01-%d" % ti, special)
                    t.add_file(special + "/inside.txt", mk + b" inside " + special.encode())
                    t.markers[mk] = special + "/inside.txt"
            targets = gen_targets(t, rng, per_tree)
            work = []
            for i, tg in enumerate(targets):
                rf = RANGES[i % len(RANGES)] if i % 3 else None
                hdr = "%s: %s\r\n" % (("Range", "range", "RANGE")[i % 11 % 3], rf) if rf else ""
                # the property speaks of requests, not of GET: one request in five uses another method
                method = "GET" if i % 5 != 4 else ("HEAD", "POST", "OPTIONS", "PUT", "DELETE", "PATCH")[(i // 5) % 6]
                if method in ("POST", "PUT", "PATCH"):
                    hdr += "Content-Length: 0\r\n"
                raw = ("%s %s HTTP/1.1\r\nHost: localhost\r\n%s\r\n" % (method, tg, hdr)).encode("utf-8")
                work.append((tg, rf, raw))
            for entry in ("process", "legacy"):
                results = fetch.inproc(t.root, [w[2] for w in work], entry=entry)
                for (tg, rf, raw), res in zip(work, results):
                    c.ev()
                    fs = features(tg)
                    if fs & {"dotdot", "encoded-dot", "encoded-slash", "backslash", "odd-dots", "no-leading-slash", "authority-like", "absolute-form"}:
                        c.cls(tuple(sorted(fs)), depth, entry, "range" if rf else "norange")
                    if res.end == "missing":
                        c.inconc("no observation")
                        continue
                    if res.crashed:
                        c.count("crashed_requests_%s (C04's business; bytes written before the crash are still scanned)" % entry)
                    scan(c, t, res, tg, rf, entry, "A")
                    if len(c.samples) < 6 and climbs(tg) and c.evaluations % 211 == 0:
                        c.sample({"target": tg, "range": rf, "entry": entry, "status_line": res.response[:40].decode("latin-1"), "tree_depth": depth})
            # Engine B
            nb = 150 if c.quick else 1200
            pick = work[:60] + [work[i] for i in sorted(rng.sample(range(len(work)), min(nb, len(work))))]

            def restart(old):
                old.cleanup()
                s = server.Server(t.root, threads=4)
                return s if s.started else None
            srv = server.Server(t.root, threads=4)
            if not srv.started:
                c.inconc("server did not start")
            else:
                results, srv = fetch.binary(srv, [w[2] for w in pick], restart=restart, threads=4)
                for (tg, rf, raw), res in zip(pick, results):
                    c.ev()
                    fs = features(tg)
                    if fs & {"dotdot", "encoded-dot", "encoded-slash", "backslash", "odd-dots", "no-leading-slash", "authority-like", "absolute-form"}:
                        c.cls(tuple(sorted(fs)), depth, "binary", "range" if rf else "norange")
                    if res.response:
                        c.seen("engine B responses")
                    scan(c, t, res, tg, rf, "binary", "B")
        finally:
            if srv:
                srv.cleanup()
            t.cleanup()
    if not c.quick:
        strace_lane(c, rng)


def strace_lane(c, rng):
    """secondary monitor: every path the server opens successfully, canonicalised, must stay inside the root
    (system paths, the binary and owner-allowed symlink targets excepted)"""
    t = treegen.generate(rng.fork("tree", "strace"), depth=2, outside_links=True, tag="c01-s")
    srv = None
    try:
        srv = server.Server(t.root, threads=2, strace=True)
        if not srv.started:
            c.inconc("strace server did not start")
            return
        targets = gen_targets(t, rng, 200)
        for tg in targets:
            raw = ("GET %s HTTP/1.1\r\nHost: localhost\r\n\r\n" % tg).encode("utf-8")
            # mark the request in the trace through a unique (refused) path component
            srv.request(raw)
            if not srv.alive():
                break
        srv.stop()
        opened = 0
        allowed_real = set(os.path.realpath(p) for p in t.allowed_outside.values())
        rootreal = os.path.realpath(t.root)
        for ln in open(srv.strace_path, errors="replace"):
            m = re.search(r'open(?:at)?\((?:AT_FDCWD, )?"([^"]+)", ([A-Z_|]+)[^)]*\) = (\d+)', ln)
            if not m:
                continue
            path, flags = m.group(1), m.group(2)
            if not path.startswith("/"):
                path = os.path.join(t.root, path)
            real = os.path.realpath(path)
            opened += 1
            if real.startswith(rootreal + "/") or real == rootreal:
                continue
            if real.startswith(("/lib", "/usr", "/etc", "/proc", "/dev", "/sys", "/bin")) or real == os.path.realpath(srv.binary) or "/.cache/target/" in real:
                continue
            if real in allowed_real or any(real.startswith(os.path.dirname(a) + "/") and real == a for a in allowed_real):
                continue
            if os.path.dirname(real) in [os.path.dirname(a) for a in allowed_real] and "shareddir" in real:
                continue
            if real.startswith(os.path.realpath(t.base)):
                c.violation("C01:open-outside-root:strace", "the server opened %s (outside the served root %s)" % (real, rootreal), {"path": real, "line": ln.strip()[:200]})
        c.count("strace_successful_opens_inspected", opened)
        c.need("strace lane saw opens")
        if opened:
            c.seen("strace lane saw opens")
    finally:
        if srv:
            srv.cleanup()
        t.cleanup()

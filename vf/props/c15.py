"""C15 - Responses written by the library can be read back by it (DESIGN.md section 4, C15)."""
import base64
from .. import core
from ..gen import text

TYPES = ["text/plain", "text/html", "application/octet-stream", "image/png", "application/json", "video/mp4", "font/woff2"]
FRAMING = {"content-type", "content-range", "content-length"}
BOUNDARY_LINE = b"--String_separator"


def gen_body(rng):
    k = rng.below(14)
    kinds = ["empty", "text", "binary", "ends-cr", "ends-lf", "ends-crlf", "dashes", "allbytes", "starts-crlf", "only-crlf", "bare-token", "one-byte", "dashdash-line", "big"]
    kind = kinds[k]
    body = {
        "empty": b"", "text": b"hello world", "binary": rng.bytes(rng.range(1, 400)), "ends-cr": b"data\r", "ends-lf": b"data\n", "ends-crlf": b"data\r\n",
        "dashes": b"--\r\n----\r\n-- --", "allbytes": bytes(range(256)), "starts-crlf": b"\r\nx", "only-crlf": b"\r\n\r\n", "bare-token": b"a String_separator inside\r\nline",
        "one-byte": bytes([rng.below(256)]), "dashdash-line": b"--not-the-boundary\r\nz", "big": rng.bytes(70000),
    }[kind]
    if BOUNDARY_LINE in body:
        body = body.replace(BOUNDARY_LINE, b"--string_separator")
    return kind, body


def gen_response(rng, status, reason, nparts):
    headers = []
    for _ in range(rng.choice([0, 1, 2, 5])):
        name = rng.choice(["X-" + text.token(rng), "Server", "Cache-Control", "Vary", "Date-Unix-Epoch-Nanos", text.token(rng)])
        value = (text.printable(rng, 1, 30, weights=(8, 2, 1)).strip() or "v")
        headers.append((name, value))
    if rng.chance(1, 12):
        headers.insert(rng.below(len(headers) + 1), (rng.choice(["Content-Length", "content-length"]), rng.choice(["0", "4", "17", "999999", "abc", ""])))
    if rng.chance(1, 10):
        # a caller header that spells a framing header's name in another letter case is an ordinary header for the library
        headers.insert(rng.below(len(headers) + 1), (rng.choice(["content-type", "CONTENT-TYPE", "Content-type", "content-range", "CONTENT-RANGE"]), rng.choice(["text/css", "image/png", "multipart/byteranges; boundary=other", "bytes 0-1/2", "x"])))
    parts = []
    if nparts == 1:
        kind, body = gen_body(rng)
        parts.append({"start": 0, "end": len(body), "size": str(len(body)), "type": rng.choice(TYPES), "body": body, "kind": kind})
    else:
        for _ in range(nparts):
            kind, body = gen_body(rng)
            size = rng.choice([len(body), len(body) + rng.below(1000), 2 ** 40, 2 ** 63 - 1])
            start = rng.below(max(1, min(size, 2 ** 62)))
            end = min(size, start + len(body))
            parts.append({"start": start, "end": max(start, end), "size": str(size), "type": rng.choice(TYPES), "body": body, "kind": kind})
    return {"status": status, "reason": reason, "headers": headers, "parts": parts}


def fields_of(r, which):
    f = [which, "HTTP/1.1", str(r["status"]), r["reason"], str(len(r["headers"]))]
    for k, v in r["headers"]:
        f += [k, v]
    f.append(str(len(r["parts"])))
    for p in r["parts"]:
        f += ["bytes", str(p["start"]), str(p["end"]), p["size"], p["type"], p["body"]]
    return f


def decode_response(o, base):
    i = base
    ver, status, reason, nh = o.s(i), o.n(i + 1), o.s(i + 2), o.n(i + 3)
    i += 4
    hs = []
    for _ in range(nh):
        hs.append((o.s(i), o.s(i + 1)))
        i += 2
    nr = o.n(i)
    i += 1
    parts = []
    for _ in range(nr):
        parts.append({"unit": o.s(i), "start": o.n(i + 1), "end": o.n(i + 2), "size": o.s(i + 3), "type": o.s(i + 4), "body": o.fields[i + 5] if i + 5 < len(o.fields) else b""})
        i += 6
    return {"version": ver, "status": status, "reason": reason, "headers": hs, "parts": parts}


def compare(c, r, got, which, rp):
    tag = "C15:roundtrip:%s" % which
    if (got["status"], got["reason"], got["version"]) != (r["status"], r["reason"], "HTTP/1.1"):
        c.violation(tag + ":status-line", "status line came back as %r" % ((got["version"], got["status"], got["reason"]),), rp)
    mine = [h for h in got["headers"] if h[0].lower() not in FRAMING]
    sent = [h for h in r["headers"] if h[0].lower() not in FRAMING]
    if mine != sent:
        c.violation(tag + ":headers", "caller-supplied headers differ: sent %r got %r" % (r["headers"][:4], mine[:4]), rp)
    if len(got["parts"]) != len(r["parts"]):
        kinds = "+".join(sorted(set(p["kind"] for p in r["parts"])))
        c.violation(tag + ":part-count:bodies=%s" % kinds, "%d parts written, %d read back" % (len(r["parts"]), len(got["parts"])), rp)
        return
    for j, (a, b) in enumerate(zip(r["parts"], got["parts"])):
        multi = "multi" if len(r["parts"]) > 1 else "single"
        if b["type"] != a["type"]:
            c.violation(tag + ":content-type:%s" % multi, "part %d content type %r came back as %r" % (j, a["type"], b["type"]), rp)
        if (b["start"], b["end"], b["size"]) != (a["start"], a["end"], a["size"]):
            c.violation(tag + ":range:%s" % multi, "part %d range %r came back as %r" % (j, (a["start"], a["end"], a["size"]), (b["start"], b["end"], b["size"])), rp)
        if b["body"] != a["body"]:
            c.violation("C15:roundtrip:body:%s:%s" % (multi, a["kind"]), "part %d body (%s, %d bytes) came back with %d bytes: %r..." % (j, a["kind"], len(a["body"]), len(b["body"]), b["body"][:40]), rp)


def run(c):
    c.rule = ("every registered (code, reason) pair x header lists x (1 part built like the library builds it | 2..6 parts with arbitrary ranges) x bodies (empty, binary, ending in CR/LF/CRLF, "
              "dashes, bare boundary token) through both serialisers; single-field corruptions of valid serialisations must be rejected. "
              "Class = (status, #parts, body kinds, serialiser) or (corruption kind, #parts); non-trivial = anything but a 200 with one text body.")
    rng = c.rng
    st = core.run_cases([core.Case("st", "resp.statuses", [])]).get("st")
    if st is None or st.outcome != "ok":
        c.inconc("cannot read the status table")
        return
    statuses = [(st.n(1 + 2 * i), st.s(2 + 2 * i)) for i in range(st.n(0))]
    c.extra["registered_statuses"] = len(statuses)
    shapes = 40 if c.quick else 1500
    cases, meta = [], {}
    n = 0
    for (code, reason) in statuses:
        for s in range(shapes):
            nparts = 1 if s % 2 == 0 else rng.range(2, 6)
            r = gen_response(rng, code, reason, nparts)
            for which in ("assoc", "inst"):
                cid = "r%d" % n
                n += 1
                cases.append(core.Case(cid, "resp.roundtrip", fields_of(r, which)))
                meta[cid] = (r, which)
    core.cold_race_check(c, "C15", [cs for cs in cases if len(cs.line()) < 6000][:12], trials=30 if c.quick else 600)
    for cat in ("1 part", ">= 2 parts", "serialiser assoc", "serialiser inst"):
        c.need(cat)
    good = []  # valid serialisations for the corruption campaign
    obs = core.run_cases(cases, poison=("http", "multipart"))
    seen_status = set()
    same = diff = 0
    by_pair = {}
    for cs in cases:
        o = obs.get(cs.id)
        r, which = meta[cs.id]
        c.ev()
        if o is None or o.outcome == "missing":
            c.inconc("no observation " + cs.id)
            continue
        kinds = tuple(sorted(set(p["kind"] for p in r["parts"])))
        if not (r["status"] == 200 and kinds == ("text",)):
            c.cls(r["status"], len(r["parts"]), kinds, which)
        c.seen("1 part" if len(r["parts"]) == 1 else ">= 2 parts")
        c.seen("serialiser " + which)
        rp = {"serialiser": which, "response": {"status": r["status"], "reason": r["reason"], "headers": r["headers"], "parts": [{k: (base64.b64encode(v[:200]).decode() if k == "body" else v) for k, v in p.items()} for p in r["parts"]]}}
        if o.outcome in ("panic", "died", "timeout"):
            c.crash("Response::parse(serialise(r))", o, cs, rp)
            continue
        raw = o.fields[0]
        by_pair.setdefault(cs.id[1:] if False else None, None)
        if which == "inst" and o.n(1) != len(r["headers"]):
            c.count("instance_serialiser_mutated_callers_header_list_not_judged")
        if o.s(2) != "ok":
            kinds_s = "+".join(kinds)
            c.violation("C15:roundtrip:%s:parse-error:parts=%s:bodies=%s" % (which, "1" if len(r["parts"]) == 1 else "n", kinds_s), "parse of the library's own serialisation failed: %s" % o.s(3), rp)
            continue
        seen_status.add(r["status"])
        got = decode_response(o, 3)
        compare(c, r, got, which, rp)
        # corruption campaign: only responses whose bodies cannot be confused with structure (no bare boundary token)
        if which == "assoc" and len(good) < (3000 if c.quick else 60000) and "bare-token" not in kinds:
            good.append((r, raw))
        if len(c.samples) < 4 and len(r["parts"]) > 1:
            c.sample({"kind": "roundtrip", "serialiser": which, "status": r["status"], "parts": [(p["start"], p["end"], p["size"], p["type"], p["kind"]) for p in r["parts"]], "serialised_prefix": raw[:120].decode("latin-1")})
    c.extra["statuses_round_tripped"] = len(seen_status)
    c.need("all registered statuses round-tripped")
    if len(seen_status) == len(statuses):
        c.seen("all registered statuses round-tripped")
    # serialiser comparison (recorded, not judged)
    ids = [cs.id for cs in cases]
    for a, b in zip(ids[0::2], ids[1::2]):
        oa, ob = obs.get(a), obs.get(b)
        if oa and ob and oa.outcome == "ok" and ob.outcome == "ok":
            if oa.fields[0] == ob.fields[0]:
                same += 1
            else:
                diff += 1
    c.extra["serialisers_byte_identical"] = same
    c.extra["serialisers_differ_not_judged"] = diff
    # ---- corruptions that must be reported as an error
    registered = set(code for code, _ in statuses)
    cases, meta = [], {}
    n = 0
    for r, raw in good:
        multi = len(r["parts"]) > 1
        line, rest = raw.split(b"\r\n", 1)
        ver, code, reason = line.split(b" ", 2)
        muts = []
        unreg = str(rng.choice([x for x in (99, 199, 209, 299, 399, 419, 430, 499, 512, 599, 600, 999, 0) if x not in registered])).encode()
        muts.append(("status-unregistered", ver + b" " + unreg + b" " + reason + b"\r\n" + rest))
        muts.append(("status-not-a-number", ver + b" " + rng.choice([b"abc", b"2OO", b"", b"20x", b"-200"]) + b" " + reason + b"\r\n" + rest))
        other = rng.choice([rs for cd, rs in statuses if rs != r["reason"]])
        muts.append(("reason-of-another-status", ver + b" " + code + b" " + other.encode() + b"\r\n" + rest))
        muts.append(("reason-garbage", ver + b" " + code + b" " + rng.choice([b"Whatever", b"OKAY", b"x", reason + b"x", reason[:-1]]) + b"\r\n" + rest))
        # wordings other servers and older / newer RFCs use for the same code: not the registered phrase, hence a mismatch
        ALT = {"203": ["Non-Authoritative Information"], "302": ["Moved Temporarily", "Object Moved"], "408": ["Request Time-out"], "413": ["Request Entity Too Large", "Payload Too Large", "Content Too Large"],
               "414": ["Request-URI Too Long", "Request-URI Too Large", "URI Too Long"], "416": ["Requested Range Not Satisfiable", "Range Not Satisfiable"], "418": ["I'm a teapot", "I'm a Teapot"], "422": ["Unprocessable Entity", "Unprocessable Content"],
               "504": ["Gateway Time-out", "Gateway Timeout"], "500": ["Internal Error", "Server Error"], "200": ["Okay", "Success"], "404": ["File Not Found", "Not Here"], "206": ["Partial"], "400": ["Bad Syntax"], "505": ["Version Not Supported"]}
        for alt in ALT.get(code.decode("latin-1"), []):
            if alt.strip().lower().encode() != reason.strip().lower():   # letter case is not a different phrase (the library compares case-insensitively)
                muts.append(("reason-alternative-wording", ver + b" " + code + b" " + alt.encode() + b"\r\n" + rest))
        if multi:
            head, body = raw.split(b"\r\n\r\n", 1)
            if body.startswith(BOUNDARY_LINE + b"\r\n"):
                muts.append(("opening-boundary-removed", head + b"\r\n\r\n" + body[len(BOUNDARY_LINE) + 2:]))
            if body.endswith(b"\r\n" + BOUNDARY_LINE):
                muts.append(("closing-boundary-removed", head + b"\r\n\r\n" + body[: -len(BOUNDARY_LINE) - 2]))
            i = body.find(b"\r\n\r\n")
            fb = r["parts"][0]["body"]
            # unambiguous only when the first part's body is non-empty and free of line breaks
            # (a body made of white space only would itself read as the blank line)
            if i > 0 and fb.strip() and b"\r" not in fb and b"\n" not in fb:
                muts.append(("part-blank-line-removed", head + b"\r\n\r\n" + body[:i] + b"\r\n" + body[i + 4:]))
        if multi:
            # a part that loses one of its two headers, or a stream that ends inside a part's headers
            i = body.find(b"\r\n\r\n")
            part_head = body[:i].split(b"\r\n") if i > 0 else []
            if len(part_head) == 3 and part_head[0] == BOUNDARY_LINE:
                ct_line, cr_line = part_head[1], part_head[2]
                if ct_line.lower().startswith(b"content-type:") and cr_line.lower().startswith(b"content-range:"):
                    muts.append(("part-content-range-removed", head + b"\r\n\r\n" + BOUNDARY_LINE + b"\r\n" + ct_line + body[i:]))
                    muts.append(("part-content-type-removed", head + b"\r\n\r\n" + BOUNDARY_LINE + b"\r\n" + cr_line + body[i:]))
                    muts.append(("truncated-inside-part-headers", head + b"\r\n\r\n" + BOUNDARY_LINE + b"\r\n" + ct_line + b"\r\n"))
                    # ... of the last part
                    j = body.rfind(BOUNDARY_LINE + b"\r\n")
                    k = body.find(b"\r\n", j + len(BOUNDARY_LINE) + 2)
                    if j > 0 and k > 0:
                        muts.append(("truncated-inside-last-part-headers", head + b"\r\n\r\n" + body[:k + 2]))
        for kind, m in muts:
            cid = "k%d" % n
            n += 1
            cases.append(core.Case(cid, "resp.parse", [m]))
            meta[cid] = (kind, multi, m, r)
    obs = core.run_cases(cases)
    for k in ("status-unregistered", "status-not-a-number", "reason-of-another-status", "reason-garbage", "opening-boundary-removed", "closing-boundary-removed", "part-blank-line-removed",
              "part-content-range-removed", "part-content-type-removed", "truncated-inside-part-headers", "truncated-inside-last-part-headers", "reason-alternative-wording"):
        c.need("corruption " + k)
    for cs in cases:
        o = obs.get(cs.id)
        kind, multi, m, r = meta[cs.id]
        c.ev()
        c.cls("corruption", kind, multi)
        c.seen("corruption " + kind)
        if o is None or o.outcome == "missing":
            c.inconc("no observation " + cs.id)
            continue
        rp = {"corruption": kind, "bytes_b64": base64.b64encode(m[:1500]).decode()}
        if o.outcome in ("panic", "died", "timeout"):
            c.crash("Response::parse", o, cs, rp)
        elif o.outcome == "ok":
            if True:
                c.violation("C15:accept-corrupted:%s" % kind, "parse returned Ok for a serialisation with %s" % kind, rp)
        if len(c.samples) < 8 and hash(cs.id) % 400 == 0:
            c.sample({"kind": "corruption", "class": kind, "bytes_prefix": m[:80].decode("latin-1"), "outcome": o.outcome})

"""C06 - Serving capacity survives any history of connections (DESIGN.md section 4, C06)."""
import os, glob, re, socket, time, base64
from .. import core, build, server, httpstrict, serve, trace
from ..gen import tree as treegen, req as reqgen
from . import c07

FAULTS = ["valid", "crasher", "mutant", "early-close", "rst-before-send", "rst-after-send", "rst-mid-request", "half-request-then-close", "idle-then-close", "oversized", "burst",
          "rst-during-big-response", "close-without-reading-big-response", "never-read-then-close", "stall-all-workers-then-close", "half-close-then-read", "drip-then-close", "clock-jump", "queued-across-clock-jump"]
# request handling that fails internally, over real sockets: the harness runs the real accept loop and pool with an
# application that panics / errs / stalls when the request asks for it (vh srv)
FAULTS_MIXED = ["handler-panic", "handler-panic-long-message", "handler-panic-non-string", "handler-err", "handler-panic-then-rst", "handler-slow-then-rst", "handler-slow-then-close", "handler-panic-burst"]
BIG = "/c06-big4m.bin"
BIGREQ = ("GET %s HTTP/1.1\r\nHost: x\r\n\r\n" % BIG).encode()


def on_record(c, limit=6):
    """enough unknown violations are on record: the remaining histories would only wait out more watchdogs (each
    unanswered probe costs 15 s) without changing the verdict"""
    n = sum(v["count"] for sig, v in c.violations.items() if sig not in c.known)
    return n >= limit


def corpus():
    out = []
    for f in sorted(glob.glob(os.path.join(build.VERIF, "corpus", "crashers", "*.req"))):
        out.append(open(f, "rb").read())
    return out


def step(srv, kind, rng, valid, crashers, mutants):
    """perform one connection of the given kind; all sockets are closed on return"""
    try:
        if kind == "valid":
            data, end = srv.request(rng.choice(valid).bytes(), timeout=6)
            if not data and end in ("timeout", "refused"):
                return "unanswered"
        elif kind == "crasher" and crashers:
            srv.request(rng.choice(crashers), timeout=6)
        elif kind == "mutant" or kind == "crasher":
            srv.request(rng.choice(mutants), timeout=6)
        elif kind == "early-close":
            s = srv.connect()
            s.close()
        elif kind == "rst-before-send":
            s = srv.connect()
            server.rst_close(s)
        elif kind == "rst-after-send":
            s = srv.connect()
            s.sendall(rng.choice(valid).bytes())
            server.rst_close(s)
        elif kind == "rst-mid-request":
            s = srv.connect()
            raw = rng.choice(valid).bytes()
            s.sendall(raw[: max(1, len(raw) // 2)])
            server.rst_close(s)
        elif kind == "half-request-then-close":
            s = srv.connect()
            raw = rng.choice(valid).bytes()
            s.sendall(raw[: rng.range(1, max(2, len(raw) - 1))])
            s.close()
        elif kind == "idle-then-close":
            s = srv.connect()
            time.sleep(0.02)
            s.close()
        elif kind == "rst-during-big-response":
            # the worker is in the middle of write_all of a 4 MiB body when the peer resets
            s = srv.connect()
            s.setsockopt(socket.SOL_SOCKET, socket.SO_RCVBUF, 4096)
            s.sendall(BIGREQ)
            try:
                s.recv(rng.choice([1, 100, 5000]))
            except (OSError, socket.timeout):
                pass
            server.rst_close(s)
        elif kind == "close-without-reading-big-response":
            s = srv.connect()
            s.sendall(BIGREQ)
            s.close()
        elif kind == "never-read-then-close":
            # the peer's window fills up, the worker blocks in write; then the peer goes away
            s = srv.connect()
            s.setsockopt(socket.SOL_SOCKET, socket.SO_RCVBUF, 4096)
            s.sendall(BIGREQ)
            time.sleep(rng.choice([0.05, 0.2]))
            if rng.chance(1, 2):
                server.rst_close(s)
            else:
                s.close()
        elif kind == "stall-all-workers-then-close":
            # more silent connections than workers: every worker is parked in read, the rest wait in the queue; then all go away
            socks = []
            for _ in range(srv.threads + 2):
                try:
                    socks.append(srv.connect())
                except OSError:
                    break
            time.sleep(0.1)
            for i, s in enumerate(socks):
                try:
                    if i % 2:
                        server.rst_close(s)
                    else:
                        s.close()
                except OSError:
                    pass
        elif kind == "half-close-then-read":
            # legal client behaviour: send, shut down the sending side, read the answer
            s = srv.connect()
            s.sendall(rng.choice(valid).bytes())
            s.shutdown(socket.SHUT_WR)
            s.settimeout(6)
            got = b""
            try:
                while True:
                    b = s.recv(65536)
                    if not b:
                        break
                    got += b
            except socket.timeout:
                s.close()
                return "unanswered" if not got else None
            s.close()
        elif kind == "drip-then-close":
            # the request arrives in pieces with pauses (the server reads once), then the peer closes without reading
            s = srv.connect()
            raw = rng.choice(valid).bytes()
            k = rng.range(1, max(2, len(raw) - 1))
            s.sendall(raw[:k])
            time.sleep(0.03)
            try:
                s.sendall(raw[k:])
            except OSError:
                pass
            s.close()
        elif kind == "queued-across-clock-jump":
            # every worker is parked on a silent peer, one more connection with a valid request waits in the queue, the clock
            # moves on by more than a minute, the silent peers leave: the queued request is then served like any other
            socks = []
            for _ in range(srv.threads):
                try:
                    socks.append(srv.connect())
                except OSError:
                    break
            time.sleep(0.1)
            q = srv.connect(timeout=20)
            q.sendall(rng.choice(valid[:3]).bytes())
            time.sleep(0.05)
            jumped = srv.advance_clock(rng.choice([31, 61, 3700]))
            for s in socks:
                s.close()
            got = b""
            try:
                while True:
                    b = q.recv(65536)
                    if not b:
                        break
                    got += b
            except (OSError, socket.timeout):
                pass
            q.close()
            if jumped and not got:
                return "unanswered"
        elif kind == "clock-jump":
            # time passes (a minute, an hour, more than a day) between two connections; no-op without the clock shim
            srv.advance_clock(rng.choice([61, 3700, 90000]))
        elif kind.startswith("handler-"):
            f = srv.probe_path
            tag = {"handler-panic": "__panic", "handler-panic-long-message": "__panic_long", "handler-panic-non-string": "__panic_any", "handler-err": "__err",
                   "handler-panic-then-rst": "__panic", "handler-slow-then-rst": "__slow", "handler-slow-then-close": "__slow", "handler-panic-burst": "__panic"}[kind]
            raw = ("GET %s?%s HTTP/1.1\r\nHost: x\r\n\r\n" % (f, tag)).encode()
            if kind == "handler-panic-burst":
                socks = []
                for _ in range(srv.threads + 3):
                    try:
                        s = srv.connect()
                        s.sendall(raw)
                        socks.append(s)
                    except OSError:
                        pass
                for i, s in enumerate(socks):
                    try:
                        if i % 2:
                            server.rst_close(s)
                        else:
                            s.settimeout(2)
                            s.recv(100)
                            s.close()
                    except (OSError, socket.timeout):
                        pass
            elif kind.endswith("-then-rst") or kind.endswith("-then-close"):
                s = srv.connect()
                s.sendall(raw)
                time.sleep(rng.choice([0.0, 0.001, 0.05]))
                if kind.endswith("rst"):
                    server.rst_close(s)
                else:
                    s.close()
            else:
                srv.request(raw, timeout=6)
        elif kind == "oversized":
            srv.request(b"GET / HTTP/1.1\r\nHost: x\r\nX-Pad: " + b"p" * rng.choice([10001, 20000, 40000]) + b"\r\n\r\n", timeout=10)
        elif kind == "burst":
            deadline_hit = [0]
            socks = []
            for _ in range(50):
                try:
                    socks.append(srv.connect())
                except OSError:
                    break
            raw = rng.choice(valid).bytes()
            for s in socks:
                try:
                    s.sendall(raw)
                except OSError:
                    pass
            for s in socks:
                try:
                    s.settimeout(3 if deadline_hit[0] == 0 else 0.2)
                    while s.recv(65536):
                        pass
                except socket.timeout:
                    deadline_hit[0] += 1
                except OSError:
                    pass
                s.close()
            if deadline_hit[0] >= 3:
                return "unanswered"
    except (OSError, socket.timeout):
        pass


def quiesce(srv, timeout=5.0):
    """wait until the log stops growing"""
    last, t0, stable = -1, time.time(), 0
    while time.time() - t0 < timeout:
        sz = os.path.getsize(srv.err_path) + os.path.getsize(srv.out_path)
        if sz == last:
            stable += 1
            if stable >= 3:
                return
        else:
            stable, last = 0, sz
        time.sleep(0.02)


def log_mechanism(srv):
    for ln in srv.stderr_text().splitlines():
        m = re.search(r"panicked at ([^\s:]+)", ln)
        if m:
            from ..ctx import repo_rel
            return "panic@" + repo_rel(m.group(1) if m.group(1).startswith("/") else os.path.join(build.REPO, m.group(1)))
        if "overflowed its stack" in ln:
            return "stack-overflow"
    for l in srv.stderr_text().splitlines():
        if l.startswith("VERIF-EVENT") or l.startswith("Worker "):
            continue
        if "unable to read peer addr" in l:
            return "accept-loop-returned:unable-to-read-peer-addr"
        if "unable to get TCP stream" in l:
            return "accept-loop-returned:accept-error"
        if "unable to read local addr" in l:
            return "accept-loop-returned:unable-to-read-local-addr"
    return "unknown"


def probe_after(c, srv, t, n, history, probe_file):
    """observations at quiescence; returns False if the server must be replaced"""
    rp = {"workers": n, "history": history[-40:], "history_length": len(history), "log_tail": [l for l in srv.stderr_text().splitlines() if not l.startswith("VERIF-EVENT")][-6:]}
    kinds = sorted(set(history))
    last = history[-1] if history else "-"
    if not srv.alive():
        c.violation("C06:process-exited:%s" % log_mechanism(srv), "server process exited (status %s) after a history of %d connections ending with %s" % (srv.proc.poll(), len(history), history[-3:]), rp)
        return False
    alive = srv.workers_alive()
    if len(alive) < n:
        c.violation("C06:worker-lost:%s" % log_mechanism(srv), "only workers %s of %d remain after a history of %d connections (kinds %s)" % (alive, n, len(history), kinds), rp)
        return False
    # bounded progress: every worker is back in its loop within 10 s of the last connection being closed (the slowest
    # handler of the campaign takes 0.3 s; a response to a closed peer fails at once)
    t0 = time.time()
    while True:
        ev = srv.hook_events()
        lastev = {}
        for seq, point, w in ev:
            if point != "Submit":
                lastev[w] = point
        stuck = [w for w in range(n) if lastev.get(w) not in ("BeforeLock", "Locked")]
        if not stuck or not ev or time.time() - t0 > 10:
            break
        time.sleep(0.05)
    if stuck and ev:
        c.violation("C06:worker-not-back-in-loop", "workers %s are not back in the accept loop at quiescence (last events %s)" % (stuck, {w: lastev.get(w) for w in stuck}), rp)
        return False
    # (c) a valid request is answered correctly
    data, end = srv.request(("GET %s HTTP/1.1\r\nHost: x\r\n\r\n" % probe_file).encode(), timeout=15)
    r = httpstrict.parse(data)
    if not data and end == "timeout":
        c.violation("C06:probe-unanswered", "after the history a valid GET is not answered within 15 s (typical < 5 ms); worker census %s" % srv.workers_alive(), rp)
        return False
    if r.status != 200 or r.body != t.files[probe_file]:
        c.violation("C06:probe-wrong-answer", "after the history a valid GET is answered %s / %d bytes (%s)" % (r.status, len(r.body), end), rp)
        return srv.alive()
    # (d) simultaneity: N-1 silent connections occupy N-1 workers, one more request must still be answered
    idle = []
    ok = False
    try:
        for _ in range(n - 1):
            idle.append(srv.connect())
        time.sleep(0.05)
        before = len(srv.hook_events())
        for attempt in range(2):
            data, end = srv.request(("GET %s HTTP/1.1\r\nHost: x\r\n\r\n" % probe_file).encode(), timeout=15)
            r = httpstrict.parse(data)
            if r.status == 200 and r.body == t.files[probe_file]:
                ok = True
                break
    finally:
        for s in idle:
            try:
                s.close()
            except OSError:
                pass
    c.seen("census and probe executed")
    if not ok:
        c.violation("C06:capacity-reduced", "with %d idle connections open, a further request is not answered on a %d-worker server (%s)" % (n - 1, n, end), rp)
        return False
    # (e) the same with N-1 peers that requested a large file and do not read it (their workers are blocked in write):
    # one more request must still be answered while they are connected
    if n >= 2 and BIG in t.files:
        stalled = []
        ok2, end2 = False, "-"
        try:
            for _ in range(n - 1):
                s = srv.connect()
                s.setsockopt(socket.SOL_SOCKET, socket.SO_RCVBUF, 4096)
                s.sendall(BIGREQ)
                stalled.append(s)
            time.sleep(0.15)
            for attempt in range(2):
                data, end2 = srv.request(("GET %s HTTP/1.1\r\nHost: x\r\n\r\n" % probe_file).encode(), timeout=15)
                r = httpstrict.parse(data)
                if r.status == 200 and r.body == t.files[probe_file]:
                    ok2 = True
                    break
        except OSError:
            pass
        finally:
            for s in stalled:
                try:
                    s.close()
                except OSError:
                    pass
        c.count("probes_with_stalled_readers")
        if not ok2:
            c.violation("C06:capacity-reduced:stalled-readers", "with %d peers that do not read a 4 MiB response, a further request is not answered on a %d-worker server (%s)" % (n - 1, n, end2), rp)
            return False
    quiesce(srv)
    return True


def run(c):
    c.rule = ("histories (length 1..300, longer than the worker count) of connections drawn from: valid requests, the committed crash corpus, fresh mutations, early close, RST before / after / in the middle of sending, "
              "half-sent request, idle then close, oversized request, 50 connections at once, reset / close / never read while a 4 MiB response is being written, N+2 silent connections parking every worker then closing, "
              "half-close then read, request dripped in two pieces then close; the same accept loop and pool with an application that panics (short / long multi-byte / non-string payload), returns Err or stalls on request, also with the peer resetting meanwhile; against the real binary with N in {1,2,3,4,8,16} workers; after quiescence: process alive, /proc census of worker threads, "
              "hook events show every worker back in its loop, a valid GET answered byte-exactly, N-1 idle connections + one request still answered. In-process: the real pool runs Server::process jobs on transports "
              "with read / write-at-byte-k / flush errors and a rendezvous of N afterwards. Class = (fault-kind multiset, N, history-length class); non-trivial = contains >= 1 fault.")
    c.level = "fault_enumeration"
    rng = c.rng
    t = treegen.generate(rng.fork("tree"), depth=1, tag="c06")
    for k in FAULTS:
        c.need("fault kind " + k)
    c.need("a history longer than N")
    c.need("census and probe executed")
    for n in (1, 2, 3, 4, 8, 16):
        c.need("N = %d" % n)
    try:
        valid = reqgen.valid_requests(t, rng)
        crashers = corpus()
        c.extra["crash_corpus_size"] = len(crashers)
        mutants = []
        for r in valid:
            mutants += [raw for _, _, raw in reqgen.mutations(r, rng, 8) if len(raw) < 9000]
        t.add_file(BIG, rng.bytes(4 << 20))
        probe_file = sorted(k for k in t.files if 50 < len(t.files[k]) < 5000)[0]
        histories = []
        ns = [1, 2, 3, 4, 8, 16]
        # every single fault kind alone, then mixed histories
        for i, k in enumerate(FAULTS):
            histories.append((ns[i % 6], [k] * (ns[i % 6] + 2)))
        nh = 20 if c.quick else 500
        for i in range(nh):
            n = ns[i % 6]
            L = rng.choice([1, 3, n + 1, 2 * n + 5, 40] if c.quick else [1, 3, n + 1, 2 * n + 5, 40, 120, 300])
            kinds = [rng.choice(FAULTS) for _ in range(L)]
            histories.append((n, kinds))
        if not c.quick:
            for a in FAULTS:
                for b in FAULTS:
                    histories.append((4, [a, b, a, b, a, b]))
        servers = {}
        try:
            for n, kinds in histories:
                if on_record(c):
                    c.count("histories_skipped_after_enough_violations_were_on_record")
                    for k in kinds:
                        c.seen("fault kind " + k)
                    c.seen("N = %d" % n)
                    continue
                srv = servers.get(n)
                if srv is None or not srv.alive():
                    if srv is not None:
                        srv.cleanup()
                    srv = server.Server(t.root, threads=n, trace=True, virtual_time=True)
                    if not srv.started:
                        c.inconc("server with %d workers did not start" % n)
                        srv.cleanup()
                        servers.pop(n, None)
                        continue
                    servers[n] = srv
                for k in kinds:
                    st = step(srv, k, rng, valid, crashers, mutants)
                    c.seen("fault kind " + k)
                    if st == "unanswered":
                        # a valid request went unanswered: the history has done its damage, go straight to the probe
                        c.count("histories cut short after an unanswered valid request")
                        break
                quiesce(srv)
                c.ev()
                c.seen("N = %d" % n)
                if len(kinds) > n:
                    c.seen("a history longer than N")
                faults = tuple(sorted(set(kinds) - {"valid"}))
                if faults:
                    c.cls(faults, n, "long" if len(kinds) > 2 * n else "short")
                ok = probe_after(c, srv, t, n, kinds, probe_file)
                if len(c.samples) < 5:
                    c.sample({"workers": n, "history": kinds[:12], "length": len(kinds), "survived": bool(ok), "workers_alive_after": srv.workers_alive() if srv.alive() else None})
                if not ok:
                    srv.cleanup()
                    servers.pop(n, None)
        finally:
            for s in servers.values():
                s.cleanup()
        descriptor_exhaustion(c, t, rng, probe_file)
        if not c.quick:
            # real time, not virtual: a request that waits 35 s in the queue behind silent peers must still be served
            for n in (1, 3):
                srv = server.Server(t.root, threads=n, trace=True)
                try:
                    if srv.started:
                        socks = [srv.connect(timeout=60) for _ in range(n)]
                        time.sleep(0.2)
                        q = srv.connect(timeout=60)
                        q.sendall(("GET %s HTTP/1.1\r\nHost: x\r\n\r\n" % probe_file).encode())
                        time.sleep(35)
                        for s_ in socks:
                            s_.close()
                        got = b""
                        try:
                            while True:
                                b_ = q.recv(65536)
                                if not b_:
                                    break
                                got += b_
                        except (OSError, socket.timeout):
                            pass
                        q.close()
                        c.ev()
                        c.cls("queued-35s", n)
                        if not got.startswith(b"HTTP/1.1 200"):
                            c.violation("C06:queued-request-lost-after-35s", "a valid request that waited 35 s (real time) in the queue of a %d-worker server was answered %r" % (n, got[:40]), {"workers": n})
                        probe_after(c, srv, t, n, ["queued-for-35-seconds"], probe_file)
                finally:
                    srv.cleanup()
            # real time, not virtual: 70 s without a single connection (timeouts inside the kernel do not see the clock shim)
            for n in (2, 4):
                srv = server.Server(t.root, threads=n, trace=True)
                try:
                    if srv.started:
                        srv.request(("GET %s HTTP/1.1\r\nHost: x\r\n\r\n" % probe_file).encode())
                        time.sleep(70)
                        c.ev()
                        c.cls("idle-70s", n)
                        probe_after(c, srv, t, n, ["idle-for-70-seconds"], probe_file)
                finally:
                    srv.cleanup()
        mixed_histories(c, t, rng, valid, crashers, mutants, probe_file)
        engine_a(c, t, rng, valid, crashers, mutants)
    finally:
        t.cleanup()


def descriptor_exhaustion(c, t, rng, probe_file):
    """the process runs out of file descriptors (limit 40, 120 simultaneous connections): accept and open fail with
    EMFILE for a while; once the peers have gone the server must serve again, with all its workers"""
    c.need("descriptor exhaustion history")
    for n in ((2, 4) if c.quick else (1, 2, 4, 8)):
        if on_record(c):
            c.seen("descriptor exhaustion history")
            break
        srv = server.Server(t.root, threads=n, trace=True, nofile=40)
        try:
            if not srv.started:
                c.inconc("server with a descriptor limit did not start")
                continue
            socks = []
            raw = ("GET %s HTTP/1.1\r\nHost: x\r\n\r\n" % probe_file).encode()
            for i in range(120):
                try:
                    s = srv.connect(timeout=1.0)
                    socks.append(s)
                except (OSError, socket.timeout):
                    pass
            time.sleep(0.2)
            for i, s in enumerate(socks):
                try:
                    if i % 3 == 0:
                        s.sendall(raw)
                except OSError:
                    pass
            time.sleep(0.2)
            for i, s in enumerate(socks):
                try:
                    if i % 2:
                        server.rst_close(s)
                    else:
                        s.close()
                except OSError:
                    pass
            quiesce(srv)
            c.ev()
            c.cls("descriptor-exhaustion", n)
            c.seen("descriptor exhaustion history")
            probe_after(c, srv, t, n, ["descriptor-exhaustion:%d-connections-limit-40" % len(socks)], probe_file)
        finally:
            srv.cleanup()


def mixed_histories(c, t, rng, valid, crashers, mutants, probe_file):
    """histories in which request handling itself fails (panics with several payloads, Err, slow handler whose peer has
    gone), against the real accept loop and pool on real sockets"""
    for k in FAULTS_MIXED:
        c.need("fault kind " + k)
    ns = [1, 2, 4, 8]
    histories = []
    for i, k in enumerate(FAULTS_MIXED):
        histories.append((ns[i % 4], [k] * (ns[i % 4] + 2)))
    alphabet = FAULTS_MIXED * 2 + ["clock-jump", "valid", "rst-after-send", "early-close", "half-request-then-close", "stall-all-workers-then-close"]
    for i in range(8 if c.quick else 200):
        n = ns[i % 4]
        histories.append((n, [rng.choice(alphabet) for _ in range(rng.choice([3, n + 2, 2 * n + 5, 30]))]))
    servers = {}
    try:
        for n, kinds in histories:
            if on_record(c):
                c.count("histories_skipped_after_enough_violations_were_on_record")
                for k in kinds:
                    c.seen("fault kind " + k)
                continue
            srv = servers.get(n)
            if srv is None or not srv.alive():
                if srv is not None:
                    srv.cleanup()
                srv = server.Server(t.root, threads=n, trace=True, mixed_app=True, virtual_time=True)
                srv.probe_path = probe_file
                if not srv.started:
                    c.inconc("harness server with %d workers did not start" % n)
                    srv.cleanup()
                    servers.pop(n, None)
                    continue
                servers[n] = srv
            for k in kinds:
                step(srv, k, rng, valid, crashers, mutants)
                c.seen("fault kind " + k)
            quiesce(srv)
            c.ev()
            c.cls("mixed-app", tuple(sorted(set(kinds) - {"valid"})), n, "long" if len(kinds) > 2 * n else "short")
            if not probe_after(c, srv, t, n, kinds, probe_file):
                srv.cleanup()
                servers.pop(n, None)
    finally:
        for s in servers.values():
            s.cleanup()


def engine_a(c, t, rng, valid, crashers, mutants):
    """the real ThreadPool runs Server::process jobs exactly like Server::run's closure, on faulty transports"""
    vh = build.harness("rel")
    head_len = 900
    for n in ((2, 4) if c.quick else (1, 2, 3, 4, 8)):
        lines = []
        jobs = []
        raws = [r.bytes() for r in valid[:6]]
        scripts = [("ok", "all", "ok", "app"), ("err", "all", "ok", "app"), ("ok", "all", "err", "app"), ("ok", "all", "ok", "err"), ("ok", "chunk:7", "ok", "app")]
        scripts += [("ok", "err:%d" % k, "ok", "app") for k in ([0, 1, 17, 400, 899, 900, 901, 5000] if c.quick else list(range(0, head_len + 40, 7)))]
        for rd, wr, fl, h in scripts:
            for raw in raws[:2]:
                jobs.append(("f-%s-%s-%s-%s" % (rd, wr, fl, h), serve.case("x", raw, handler=h, read=rd, write=wr, flush=fl)))
        for raw in crashers + mutants[:20]:
            jobs.append(("crasher", serve.case("x", raw)))
        rng.shuffle(jobs)
        # scenario 1: the faulty jobs; scenario 2: a rendezvous of N on the same pool
        lines.append("faulty%d faulty %d 0" % (n, len(jobs)))
        for i, (name, cs) in enumerate(jobs):
            cs.id = "j%d" % i
            lines.append(cs.line())
        # ... and jobs that panic with every kind of payload; then scenario 2: a rendezvous of N on the same pool
        lines.append("pk%d panicky %d 0" % (n, 24))
        lines.append("rv%d rendezvous %d %d" % (n, n, (rng.u64() >> 1) | 1))
        rc, err, scns = c07.run_pool(vh, n, "\n".join(lines) + "\n", watchdog=4, env=None, timeout=300)
        c.ev()
        c.cls("pool", n, len(jobs))
        if not scns:
            c.inconc("pool process produced no scenario (rc=%s): %s" % (rc, err[-200:]))
            continue
        by = {s.id: s for s in scns}
        f = by.get("faulty%d" % n)
        rv = by.get("rv%d" % n)
        panics = f.panics if f else []
        mech = "no-panic"
        if panics:
            from ..ctx import repo_rel, norm_msg
            th, msg, ff = panics[0]
            fl, _, fn = ff.partition("|")
            mech = "panic@%s:%s:%s" % (repo_rel(fl), fn.replace(" ", ""), norm_msg(msg))
        rp = {"workers": n, "jobs": [nm for nm, _ in jobs][:60], "panics": panics[:5], "census": rv.census if rv else (f.census if f else None), "flags": (rv.flags if rv else None)}
        if rv is None:
            c.violation("C06:pool:no-rendezvous-scenario:%s" % mech, "the pool process did not reach the rendezvous scenario after the faulty jobs", rp)
            continue
        viol, st = trace.check(rv)
        if viol:
            clause, text = viol[0]
            c.violation("C06:pool:capacity-reduced:%s" % mech, "after %d jobs with transport faults / failing handlers, %d workers can no longer run %d tasks at once: %s; panics in jobs: %s" % (len(jobs), n, n, text, [p[1][:60] for p in panics[:3]]), rp)
        else:
            c.count("pool_histories_survived")

"""C16 - multipart/form-data bodies round-trip part for part (DESIGN.md section 4, C16)."""
import base64
from .. import core, server, httpstrict
from ..gen import text, tree as treegen

BCHARS = "abcdefghijklmnopqrstuvwxyzABCDEFGHIJKLMNOPQRSTUVWXYZ0123456789'()+_,-./:=?"


def gen_boundary(rng):
    k = rng.below(10)
    if k == 0:
        return "browser", "----WebKitFormBoundary" + "".join(rng.choice(BCHARS[:62]) for _ in range(16))
    if k == 1:
        return "interior-hyphens", "ab-cd-" + "".join(rng.choice(BCHARS[:62]) for _ in range(rng.range(1, 8))) + "-x"
    if k == 2:
        return "punctuation", "".join(rng.choice("'()+_,./:=?" + BCHARS[:20]) for _ in range(rng.range(2, 30)))
    if k == 7 and rng.chance(1, 2):
        return "mime-style", rng.choice(["----=_NextPart_", "=_", "==", "b=", "=b"]) + "".join(rng.choice(BCHARS[:62] + "_.=") for _ in range(rng.range(1, 20)))
    if k == 3:
        return "one-char", rng.choice(BCHARS[:62])
    if k == 4:
        return "seventy", "".join(rng.choice(BCHARS[:62]) for _ in range(70))
    if k == 5:
        return "leading-dashes", "-" * rng.range(1, 6) + "".join(rng.choice(BCHARS[:62]) for _ in range(rng.range(1, 12)))
    if k == 6 and rng.chance(1, 4):
        return "all-hyphens", "-" * rng.range(1, 4)
    return "alnum", "".join(rng.choice(BCHARS[:62]) for _ in range(rng.range(2, 40)))


def gen_body(rng, boundary):
    k = rng.below(16)
    kinds = ["empty", "one", "two", "three", "text", "binary", "lone-cr-end", "lone-lf-end", "crlf-end", "crlf-start", "only-breaks", "dashes", "dehyphenated", "big", "lf-start", "allbytes"]
    kind = kinds[k]
    deh = boundary.replace("-", "")
    body = {
        "empty": b"", "one": bytes([rng.below(256)]), "two": rng.bytes(2), "three": rng.bytes(3), "text": b"plain value", "binary": rng.bytes(rng.range(4, 300)),
        "lone-cr-end": b"data\r", "lone-lf-end": b"data\n", "crlf-end": b"data\r\n", "crlf-start": b"\r\ndata", "only-breaks": rng.choice([b"\r\n", b"\n", b"\r", b"\r\n\r\n", b"\n\n\n"]),
        "dashes": b"--\r\n-- --\r\n----", "dehyphenated": b"line one\r\nxx " + deh.encode() + b" yy\r\nline three", "big": rng.bytes(65536), "lf-start": b"\ndata", "allbytes": bytes(range(256)),
    }[kind]
    if kind == "dehyphenated" and ("-" not in boundary.strip("-") or not deh):
        kind, body = "text", b"plain value"
    if kind == "two" and boundary.startswith("-") and boundary.lstrip("-"):
        # whole lines made of the boundary with some or all of its leading hyphens removed (shorter than the boundary,
        # so the boundary itself does not occur)
        vs = [v for v in dict.fromkeys([boundary.lstrip("-"), boundary[1:], boundary[2:], boundary.lstrip("-") + "--", "--" + boundary.lstrip("-")]) if v and boundary not in v and ("--" + boundary) not in v]
        if vs:
            kind, body = "boundary-minus-leading-hyphens", b"\r\n".join([b"first"] + [v.encode() for v in vs] + [b"last"])
    if kind == "text" and rng.chance(1, 2):
        # lines that resemble the delimiter without containing the boundary: other letter case, one character short / changed
        alt = None
        if boundary.swapcase() != boundary and boundary.lower() != boundary.upper():
            alt = rng.choice([boundary.swapcase(), boundary.upper() if boundary.upper() != boundary else boundary.lower(), boundary.lower() if boundary.lower() != boundary else boundary.upper()])
        if alt and alt != boundary and boundary not in alt:
            lines = [b"line one", b"--" + alt.encode(), alt.encode(), b"--" + alt.encode() + b"--", b"last line"]
            kind, body = "case-variant-of-boundary", b"\r\n".join(lines)
        elif len(boundary) > 3:
            short = boundary[:-1]
            changed = boundary[:-1] + ("x" if boundary[-1] != "x" else "y")
            if boundary not in short and boundary not in changed:
                kind, body = "near-boundary-lines", b"\r\n".join([b"first", b"--" + short.encode(), b"--" + changed.encode(), b"--" + changed.encode() + b"--", b"end"])
    return kind, body


def gen_parts(rng, boundary):
    parts = []
    for i in range(rng.range(1, 8)):
        hs = []
        form = rng.below(3)
        name = text.token(rng)
        if form == 0:
            hs.append(("Content-Disposition", 'form-data; name="%s"' % name))
        elif form == 1:
            hs.append(("Content-Disposition", 'form-data; name="%s"; filename="%s.bin"' % (name, text.token(rng))))
            hs.append(("Content-Type", rng.choice(["application/octet-stream", "image/png", "text/plain"])))
        else:
            hs.append(("Content-Disposition", "attachment; filename=\"%s\"" % text.token(rng)))
        for _ in range(rng.below(3)):
            hs.append(("X-" + text.token(rng), text.printable(rng, 1, 20, weights=(8, 1, 1)).strip() or "v"))
        if rng.chance(1, 10):
            hs.append((rng.choice(["Content-Description", "X-Empty"]), ""))   # a header may have an empty value
        if rng.chance(1, 8):
            # header names are written as given: other letter cases must come back as they were sent
            hs = [((k.lower() if rng.chance(1, 2) else k.upper()) if k.lower().startswith("content-") else k, v) for k, v in hs]
            if rng.chance(1, 2):
                hs.append((rng.choice(["content-length", "CONTENT-TRANSFER-ENCODING", "content-id", "Content-language"]), rng.choice(["3", "binary", "<a@b>", "en"])))
        kind, body = gen_body(rng, boundary)
        if rng.chance(1, 12):
            # headers that announce an encoding, with a body that looks encoded: the library stores and returns bytes, it does not decode
            hs = hs[:2] + [(rng.choice(["Content-Transfer-Encoding", "content-transfer-encoding", "Content-Encoding"]), rng.choice(["base64", "BASE64", "quoted-printable", "7bit", "8bit", "binary", "gzip", "x-uuencode"]))]
            kind, body = "looks-encoded", rng.choice([b"QUJD", b"QUJDRA==", b"SGVsbG8gd29ybGQ=\r\nSGVsbG8=", b"=41=42=\r\n=43", b"%41%42", b"&amp;&#65;", b"\x1f\x8b\x08\x00", b"begin 644 x\r\n#0V%T\r\nend", b"YWJj\r\n"])
        parts.append({"headers": hs[:4], "body": body, "kind": kind})
    return parts


def occurs(boundary, parts):
    """does the boundary occur anywhere in the data (header lines or bodies)?"""
    b = boundary.encode()
    for p in parts:
        if b in p["body"]:
            return True
        for k, v in p["headers"]:
            if b in ("%s: %s" % (k, v)).encode():
                return True
    return False


def dehyphenated_hit(boundary, parts):
    """the boundary itself does not occur, but its text with the hyphens removed does"""
    deh = boundary.replace("-", "").encode()
    if not deh or deh == boundary.encode():
        return False
    for p in parts:
        if deh in p["body"]:
            return True
        for k, v in p["headers"]:
            if deh in ("%s: %s" % (k, v)).encode():
                return True
    return False


def fields_of(gen_b, parse_b, parts):
    f = [gen_b, parse_b, str(len(parts))]
    for p in parts:
        f.append(str(len(p["headers"])))
        for k, v in p["headers"]:
            f += [k, v]
        f.append(p["body"])
    return f


def decode_parts(o, base):
    i = base
    n = o.n(i)
    i += 1
    out = []
    for _ in range(n):
        nh = o.n(i)
        i += 1
        hs = []
        for _ in range(nh):
            hs.append((o.s(i), o.s(i + 1)))
            i += 2
        out.append({"headers": hs, "body": o.fields[i] if i < len(o.fields) else b""})
        i += 1
    return out


def classify_body_diff(a, b):
    if a["kind"] == "dehyphenated":
        return "dehyphenated-boundary-text-in-body"
    if a["body"] == b"" and b["body"] in (b"\r\n", b"\n"):
        return "empty-body-reads-back-as-line-break"
    if len(a["body"]) <= 2:
        return "short-body-len=%d" % len(a["body"])
    if b["body"] + b"\r\n" == a["body"] or b["body"] + b"\n" == a["body"]:
        return "trailing-line-break-of-body-lost"
    return a["kind"]


def run(c):
    c.rule = ("part lists (1..8 parts, 1..4 headers, Content-Disposition in its documented forms) x bodies (0,1,2,3 bytes, binary, lone CR/LF/CRLF at either end, only line breaks, dashes, "
              "the boundary text with its hyphens removed, 64 KiB) x boundaries (RFC 2046: browser style, interior hyphens, punctuation, 1 and 70 characters, leading dashes, only hyphens), parsed with the delimiter "
              "string and with the Content-Type parameter as a browser sends it; structural deletions must be rejected; echo endpoint. Class = (#parts, body kinds, boundary class, parse spelling); "
              "non-trivial = any body other than plain text or any boundary other than alphanumeric.")
    rng = c.rng
    n = 3000 if c.quick else 150000
    cases, meta = [], {}
    good = []
    for i in range(n):
        bclass, b = gen_boundary(rng)
        parts = gen_parts(rng, b)
        tries = 0
        while occurs(b, parts) and tries < 5:
            bclass, b = gen_boundary(rng)
            parts = gen_parts(rng, b)
            tries += 1
        if occurs(b, parts):
            continue
        delim = "--" + b
        for spelling, pb in (("delimiter", delim), ("browser-parameter", b), ("content-type-header", "CT:multipart/form-data; boundary=" + b)):
            cid = "m%d%s" % (i, spelling[0])
            if spelling == "content-type-header" and (b.endswith(" ") or ";" in b):
                continue
            cases.append(core.Case(cid, "mp.roundtrip", fields_of(delim, pb, parts)))
            meta[cid] = (bclass, b, parts, spelling)
    for cat in ("empty body", "body ending CR", "body ending LF", "body ending CRLF", "boundary with interior hyphens", "browser-style parameter", "rejection: no opening boundary", "rejection: no closing boundary", "rejection: header-less part"):
        c.need(cat)
    core.cold_race_check(c, "C16", [cs for cs in cases if len(cs.line()) < 6000][:12], trials=30 if c.quick else 600)
    for lane in ("rel", "chk"):
        obs = core.run_cases(cases, lane=lane, poison=("multipart", "http"))
        for cs in cases:
            o = obs.get(cs.id)
            bclass, b, parts, spelling = meta[cs.id]
            c.ev()
            if o is None or o.outcome == "missing":
                c.inconc("no observation " + cs.id)
                continue
            kinds = tuple(sorted(set(p["kind"] for p in parts)))
            if kinds != ("text",) or bclass != "alnum":
                c.cls(len(parts), kinds, bclass, spelling)
            for p in parts:
                if p["kind"] == "empty":
                    c.seen("empty body")
                if p["kind"] == "lone-cr-end":
                    c.seen("body ending CR")
                if p["kind"] == "lone-lf-end":
                    c.seen("body ending LF")
                if p["kind"] == "crlf-end":
                    c.seen("body ending CRLF")
            if bclass == "interior-hyphens":
                c.seen("boundary with interior hyphens")
            if spelling == "browser-parameter":
                c.seen("browser-style parameter")
            rp = {"boundary": b, "boundary_class": bclass, "parse_spelling": spelling, "lane": lane,
                  "parts": [{"headers": p["headers"], "kind": p["kind"], "body_b64": base64.b64encode(p["body"] if len(p["body"]) <= 4096 else p["body"][:200]).decode(), "body_len": len(p["body"])} for p in parts]}
            if o.outcome in ("panic", "died", "timeout"):
                sig = c.crash("FormMultipartData::parse(generate(parts))", o, cs, rp)
                continue
            if o.outcome == "err":
                c.violation("C16:generate-error", "generate returned Err(%s)" % o.err, rp)
                continue
            if o.s(1) != "ok" and dehyphenated_hit(b, parts):
                c.violation("C16:roundtrip:dehyphenated-boundary-text-in-data", "boundary %r does not occur in the data but its text without hyphens does; parse failed: %s" % (b, o.s(2)), rp)
                continue
            if o.s(1) != "ok":
                if bclass in ("all-hyphens", "interior-hyphens"):
                    c.violation("C16:roundtrip:parse-error:boundary=%s" % bclass, "parse of the generated body failed: %s (boundary %r)" % (o.s(2), b), rp)
                else:
                    kd = "+".join(k for k in kinds if k in ("dehyphenated", "empty", "only-breaks", "dashes")) or "other"
                    c.violation("C16:roundtrip:parse-error:bodies=%s" % kd, "parse of the generated body failed: %s" % o.s(2), rp)
                continue
            got = decode_parts(o, 2)
            if dehyphenated_hit(b, parts) and [(g["headers"], g["body"]) for g in got] != [(a["headers"], a["body"]) for a in parts]:
                c.violation("C16:roundtrip:dehyphenated-boundary-text-in-data", "boundary %r does not occur in the data but its text without hyphens does; parts came back different" % b, rp)
                continue
            if lane == "rel" and spelling == "delimiter" and len(good) < (800 if c.quick else 20000) and not any(p["kind"] in ("dehyphenated",) for p in parts) and bclass != "all-hyphens":
                good.append((b, parts, o.fields[0]))
            if len(got) != len(parts):
                kd = bclass if bclass in ("all-hyphens", "interior-hyphens") else ("+".join(k for k in kinds if k in ("dehyphenated", "empty", "only-breaks", "dashes")) or "other")
                c.violation("C16:roundtrip:part-count:%s" % kd, "%d parts written, %d read back" % (len(parts), len(got)), rp)
                continue
            for j, (a, g) in enumerate(zip(parts, got)):
                if g["headers"] != a["headers"]:
                    c.violation("C16:roundtrip:headers", "part %d headers %r came back as %r" % (j, a["headers"], g["headers"]), rp)
                if g["body"] != a["body"]:
                    c.violation("C16:roundtrip:body:%s" % classify_body_diff(a, g), "part %d body %r (%s) came back as %r" % (j, a["body"][:30], a["kind"], g["body"][:30]), rp)
            if len(c.samples) < 5 and bclass != "alnum":
                c.sample({"boundary": b, "class": bclass, "spelling": spelling, "parts": [(p["kind"], len(p["body"])) for p in parts]})
    # ---- structural deletions must be rejected
    cases, meta = [], {}
    n = 0
    for b, parts, raw in good:
        delim = ("--" + b).encode()
        muts = []
        if raw.startswith(delim + b"\r\n"):
            muts.append(("no opening boundary", raw[len(delim) + 2:]))
        if raw.endswith(b"\r\n" + delim):
            muts.append(("no closing boundary", raw[: -len(delim) - 2]))
            muts.append(("no closing boundary", raw[: -len(delim)]))
        # a part without headers: drop the header block of the first part
        i = raw.find(b"\r\n\r\n")
        if i > 0:
            muts.append(("header-less part", delim + b"\r\n" + raw[i + 2:]))
        for kind, m in muts:
            cid = "x%d" % n
            n += 1
            cases.append(core.Case(cid, "mp.parse", ["--" + b, m]))
            meta[cid] = (kind, b, m, parts)
    obs = core.run_cases(cases)
    for cs in cases:
        o = obs.get(cs.id)
        kind, b, m, parts = meta[cs.id]
        c.ev()
        c.cls("rejection", kind, len(parts))
        c.seen("rejection: " + kind)
        if o is None or o.outcome == "missing":
            c.inconc("no observation " + cs.id)
            continue
        rp = {"kind": kind, "boundary": b, "body_b64": base64.b64encode(m[:1500]).decode()}
        if o.outcome in ("panic", "died", "timeout"):
            c.crash("FormMultipartData::parse", o, cs, rp)
        elif o.outcome == "ok":
            # which body made the mis-parse possible
            first = parts[0]["kind"] if kind != "no closing boundary" else parts[-1]["kind"]
            amb = first in ("crlf-start", "lf-start", "only-breaks", "empty", "one", "two", "three", "binary", "big", "allbytes", "dashes") and kind == "header-less part"
            if amb:
                c.count("header-less deletions that stay ambiguous (body begins with a line break or is binary): not judged")
            else:
                c.violation("C16:accept-malformed:%s" % kind.replace(" ", "-"), "parse returned Ok for a body with %s" % kind, rp)
    # ---- echo endpoint on the real binary
    echo(c, rng)


def echo(c, rng):
    t = treegen.generate(rng.fork("tree"), depth=0, n_files=2, symlinks=False, plant_secrets=False, tag="c16")
    srv = None
    try:
        srv = server.Server(t.root, threads=4)
        if not srv.started:
            c.inconc("server did not start for the echo endpoint")
            return
        c.need("echo endpoint answered")
        for i in range(60 if c.quick else 1500):
            b = "----WebKitFormBoundary" + "".join(rng.choice(BCHARS[:62]) for _ in range(16))
            fields = []
            names = set()
            for _ in range(rng.range(1, 5)):
                nm = text.token(rng)
                if nm in names:
                    continue
                names.add(nm)
                val = rng.choice(["v", text.token(rng), "two words", "a=b&c", "ünï", "", "x" * 200, "line1\nline2"])
                fields.append((nm, val))
            body = b""
            for nm, val in fields:
                body += ("--%s\r\nContent-Disposition: form-data; name=\"%s\"\r\n\r\n" % (b, nm)).encode() + val.encode() + b"\r\n"
            body += ("--%s--\r\n" % b).encode()
            raw = ("POST /form-multipart-enctype-post-method HTTP/1.1\r\nHost: x\r\nContent-Type: multipart/form-data; boundary=%s\r\nContent-Length: %d\r\n\r\n" % (b, len(body))).encode() + body
            if len(raw) > 9000:
                continue
            data, end = srv.request(raw)
            c.ev()
            c.cls("echo", len(fields), tuple(sorted(set("empty" if v == "" else ("multiline" if "\n" in v else "plain") for _, v in fields))))
            if not srv.alive() or len(srv.workers_alive()) < 4:
                c.violation("C16:echo:worker-lost", "echo endpoint killed a worker: %s" % srv.crash_lines()[:2], {"request_b64": base64.b64encode(raw).decode()})
                srv.cleanup()
                srv = server.Server(t.root, threads=4)
                continue
            r = httpstrict.parse(data)
            if r.errors or r.status != 200:
                vals = "+".join(sorted(set("empty" if v == "" else ("multiline" if "\n" in v else "plain") for _, v in fields)))
                c.violation("C16:echo:status:%s:values=%s" % (r.status, vals), "echo endpoint answered %s %s for a valid form" % (r.status, r.errors[:1]), {"request_b64": base64.b64encode(raw).decode()})
                continue
            c.seen("echo endpoint answered")
            text_body = r.body.decode("utf-8", "replace")
            for nm, val in fields:
                if ("%s is %s" % (nm, val)) not in text_body:
                    vk = "empty" if val == "" else ("multiline" if "\n" in val else "plain")
                    c.violation("C16:echo:field-missing:value=%s" % vk, "echo does not list field %r = %r; body %r" % (nm, val, text_body[:200]), {"request_b64": base64.b64encode(raw).decode()})
    finally:
        if srv:
            srv.cleanup()
        t.cleanup()

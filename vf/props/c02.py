"""C02 - Static resources: the right file, its exact bytes, its media type (DESIGN.md section 4, C02)."""
import os, hashlib, re
from .. import core, fetch, server, httpstrict, models
from ..gen import tree as treegen, req as reqgen

BUILTIN = {"/", "/style.css", "/script.js", "/favicon.svg"}
RESERVED_PATHS = ("/form-get-method", "/form-url-encoded-enctype-post-method", "/form-multipart-enctype-post-method", "/file-upload/initiate")


def add_tricky_links(t, rng):
    """symlink shapes where textual and OS resolution can differ"""
    root = t.root
    o1 = os.path.dirname(root)
    # a relative link inside a symlinked directory: root/dl -> ../else/d ; else/d/f.txt -> ../g.txt
    ed = os.path.join(o1, "else", "d")
    os.makedirs(ed, exist_ok=True)
    mk1 = treegen.marker("ALLOWED", "else-g")
    mk2 = treegen.marker("MK", "root-g")
    with open(os.path.join(o1, "else", "g.txt"), "wb") as f:
        f.write(mk1 + b" else/g.txt (the right target)\n" + b"e" * 50)
    t.add_file("/g.txt", mk2 + b" root/g.txt (a different file)\n" + b"r" * 70)
    t.markers[mk2] = "/g.txt"
    os.symlink("../g.txt", os.path.join(ed, "f.txt"))
    t.add_link("/dl", os.path.join(o1, "else", "d"))
    t.allowed_outside[mk1] = os.path.join(o1, "else", "g.txt")
    # a link with more '..' than needed (legal for the OS)
    deep = "../" * (root.count("/") + 3) + root.lstrip("/") + "/g.txt"
    t.add_link("/surplus.txt", deep)
    # link with the same extension as its target, different name
    t.add_link("/alias.txt", "g.txt")
    # root-level names that merely BEGIN with the name of a built-in page (the built-in controllers run first)
    for name in ("/style.css.map", "/script.json", "/script.js.map", "/favicon.svgz", "/index.html.bak", "/style.cssx", "/favicon.svg.png"):
        mk = treegen.marker("MK", "near-builtin", name)
        t.add_file(name, mk + b" near-builtin " + name.encode() + b"\n" + b"n" * 40)
        t.markers[mk] = name
    for d in sorted(t.dirs)[:2]:
        for name in ("style.css", "script.js", "favicon.svg"):
            mk = treegen.marker("MK", "sub-builtin", d, name)
            t.add_file(d + "/" + name, mk + b" a file that shares a built-in page's name, in a subdirectory\n")
            t.markers[mk] = d + "/" + name


def near_misses(t, rng, path):
    out = []
    if len(path) > 2:
        i = rng.range(1, len(path) - 1)
        out.append(path[:i] + ("x" if path[i] != "x" else "y") + path[i + 1:])
    out.append(path + "/")
    out.append(path + "x")
    if "." in os.path.basename(path):
        out.append(path.rsplit(".", 1)[0])
        out.append(path.rsplit(".", 1)[0] + "." + path.rsplit(".", 1)[1].upper())
    out.append(path.upper() if path.upper() != path else path.lower())
    out.append("/" + path)
    out.append(path + "/index.html")
    return out


def request_paths(t, rng):
    paths = []
    for f in sorted(t.files):
        paths.append(f)
        if f.endswith(".html") and not f.endswith("/index.html") and f != "/index.html":
            paths.append(f[:-5])
    for d in sorted(t.dirs):
        paths += [d, d + "/"]
    for k in sorted(t.links):
        paths.append(k)
        if os.path.isdir(t.abs(k)):
            paths.append(k + "/")
            try:
                for n in sorted(os.listdir(t.abs(k)))[:4]:
                    paths.append(k + "/" + n)
            except OSError:
                pass
    base = list(paths)
    for p in rng.sample(base, min(len(base), 25)):
        paths += near_misses(t, rng, p)
    for p in rng.sample(base, min(len(base), 12)):
        paths += [p + "?x=1", p + "#f", p + "?x=1&y=2#f"]
    paths += ["/style.css.bak", "/script.jstypo", "/favicon.svg2", "/style.css/", "/script.js/x", "/index.htmlx", "/favicon.svg.missing"]
    # query strings and fragments do not affect the lookup - whatever they contain
    for p in rng.sample(base, min(len(base), 10)):
        paths += [p + q for q in ("?return=/docs/../a.txt", "?dir=docs/..", "#/../top", "?a=..", "?next=../index", "?p=/..", "?x=%2e%2e/", "?a=b?c=d", "#a#b", "?", "#", "?/", "?x=/" + "a" * 200,
                                   "?" + p, "?path=" + p + ".html", "?index.html", "#index.html")]
    # ... and however long they are (lengths around every power of two that fits into one read)
    for p in rng.sample(base, min(len(base), 3)):
        for k in range(5, 14):
            for d in (-1, 0, 1):
                L = (1 << k) + d
                if len(p) + L < 9800:
                    paths.append(p + "?q=" + "v" * L)
                    if d == 0:
                        paths.append(p + "#" + "f" * L)
                        paths.append(p + "?" + "&".join("k%d=%d" % (j, j) for j in range(L // 8)))
    seen, out = set(), []
    for p in paths:
        if p in seen or p in BUILTIN or p.split("?")[0].split("#")[0] in BUILTIN or (p.split("?")[0].split("#")[0].rstrip("/") in BUILTIN and p != "/") or any(p.startswith(r) for r in RESERVED_PATHS) or " " in p:
            continue
        # the undocumented corner: directory X without index + sibling X.html
        seen.add(p)
        out.append(p)
    return out


def ambiguous_pair(t, path):
    p = path.split("?", 1)[0].split("#", 1)[0].rstrip("/")
    full = t.root + p
    return os.path.isdir(full) and not os.path.isfile(os.path.join(full, "index.html")) and os.path.isfile(full + ".html")


def size_class(n):
    return "0" if n == 0 else ("<4k" if n < 4096 else ("<10k" if n < 10000 else ("<64k" if n < 65536 else "big")))


def name_class(path):
    b = os.path.basename(path.rstrip("/"))
    if any(ord(ch) > 127 for ch in b):
        return "non-ascii"
    if b.count(".") >= 2:
        return "multi-dot"
    if "." not in b:
        return "no-ext"
    return "plain"


def run(c):
    c.rule = ("generated trees (nested directories, empty files, all byte values, sizes 0..65537 around the 4 KiB / 8 KiB / 10000-byte boundaries, multi-dot / extensionless / non-ASCII names, symlinks to files and "
              "directories incl. relative links inside a symlinked directory) x request paths derived from the tree (files, directories with/without slash, X.html as X, symlinks) plus near misses, with query / fragment; "
              "reference lookup evaluated by the OS on the same tree; media types by a core table and metamorphically per extension; both entry points compared on their common domain; real binary. "
              "Class = (lookup branch, size class, name class, extension, query form, entry point); non-trivial = anything but a plain small file.")
    rng = c.rng
    ntrees = 10 if c.quick else 150
    for cat in ("file", "dir-index", "html-fallback", "nothing (404)", "symlinked file", "symlinked dir", "empty file", "file > buffer size", "engine B responses"):
        c.need(cat)
    ext_types = {}
    for ti in range(ntrees):
        t = treegen.generate(rng.fork("tree", ti), depth=1 + ti % 4, big=(not c.quick and ti % 5 == 0), tag="c02-%d" % ti)
        srv = None
        try:
            add_tricky_links(t, rng)
            paths = request_paths(t, rng)
            rng.shuffle(paths)   # no request order is privileged (process-wide state built by earlier requests must not matter)
            # request headers do not take part in the lookup either: every sixth request carries one or two headers of the
            # standard vocabulary (conditional, negotiation, Fetch metadata, client hints, forwarding ...; never Range)
            extra = [(n, v) for n, vs in reqgen.HEADER_DICTIONARY for v in vs[:2] if n.lower() not in ("range", "if-range", "content-length", "transfer-encoding", "host", "expect", "content-range")]
            raws = []
            for pi, p in enumerate(paths):
                hx = ""
                if pi % 6 == 5:
                    hx = "".join("%s: %s\r\n" % rng.choice(extra) for _ in range(rng.range(1, 2)))
                bare_p = p.split("?", 1)[0].split("#", 1)[0]
                if any((bare_p + sfx) in t.files for sfx in (".gz", ".br")):
                    hx = "Accept-Encoding: gzip, deflate, br\r\n"   # a pre-compressed sibling exists: the client says it would take it
                raws.append(("GET %s HTTP/1.1\r\nHost: localhost\r\n%s\r\n" % (p, hx)).encode("utf-8"))
            res_by_entry = {}
            for entry in ("process", "legacy"):
                res_by_entry[entry] = fetch.inproc(t.root, raws, entry=entry)
            srv = server.Server(t.root, threads=4)

            def restart(old):
                old.cleanup()
                s = server.Server(t.root, threads=4)
                return s if s.started else None
            nb = 200 if c.quick else 2000
            idx = sorted(rng.sample(range(len(paths)), min(nb, len(paths))))
            if srv.started:
                bres, srv = fetch.binary(srv, [raws[i] for i in idx], restart=restart, threads=4)
                res_by_entry["binary"] = dict(zip(idx, bres))
            else:
                c.inconc("server did not start")
            for i, p in enumerate(paths):
                branch, sel = models.lookup(t.root, p)
                amb = ambiguous_pair(t, p)
                for entry in ("process", "legacy", "binary"):
                    rs = res_by_entry.get(entry)
                    if rs is None:
                        continue
                    res = rs[i] if entry != "binary" else rs.get(i)
                    if res is None:
                        continue
                    c.ev()
                    if entry == "binary" and res.response:
                        c.seen("engine B responses")
                    if res.end == "missing":
                        c.inconc("no observation")
                        continue
                    judge(c, t, p, branch, sel, amb, res, entry, ext_types)
            # differential: production vs legacy entry point on their common domain (plain existing files, no query)
            for i, p in enumerate(paths):
                branch, sel = models.lookup(t.root, p)
                if branch != "file" or "?" in p or "#" in p:
                    continue
                a, b = res_by_entry["process"][i], res_by_entry["legacy"][i]
                if a.crashed or b.crashed:
                    continue
                pa, pb = httpstrict.parse(a.response), httpstrict.parse(b.response)
                if (pa.status, pa.get("content-type"), pa.body) != (pb.status, pb.get("content-type"), pb.body):
                    c.violation("C02:differential:entry-points-disagree:%s" % ("symlink" if os.path.islink(t.abs(p)) else "plain"),
                                "Server::process answers %s/%s/%d bytes, Server::process_request %s/%s/%d bytes for %r" % (pa.status, pa.get("content-type"), len(pa.body), pb.status, pb.get("content-type"), len(pb.body), p),
                                {"path": p, "tree": t.spec()})
        finally:
            if srv:
                srv.cleanup()
            t.cleanup()
    live_tree(c, rng.fork("live"), ext_types)
    refused_characters(c, rng.fork("refused"))
    huge_files(c, rng.fork("huge"))
    # metamorphic media type: the same extension got the same type everywhere
    for ext, types in ext_types.items():
        if len(types) > 1:
            c.violation("C02:media-type:depends-on-more-than-extension", "extension %r was labelled %r" % (ext, sorted(types)), {"extension": ext})
    c.extra["extensions_observed"] = len(ext_types)


def huge_files(c, rng):
    """files of tens to hundreds of megabytes (sizes just above powers of two), over real sockets: whole file, HEAD, open-ended range"""
    import socket
    c.need("a file above 64 MiB served in full")
    t = treegen.generate(rng.fork("t"), depth=0, n_files=2, symlinks=False, plant_secrets=False, tag="c02-huge", root_name="root")
    srv = None
    try:
        sizes = [(1 << 24) + 1, (1 << 26) + 4096] + ([] if c.quick else [(1 << 27) + 17, (1 << 28) + 1])
        block = rng.bytes(1 << 20)
        for n in sizes:
            name = "/huge-%d.bin" % n
            with open(t.abs(name), "wb") as f:
                left = n
                k = 0
                while left > 0:
                    chunk = (bytes([k % 251]) + block)[: min(left, (1 << 20) + 1)]
                    f.write(chunk)
                    left -= len(chunk)
                    k += 1
        srv = server.Server(t.root, threads=2)
        if not srv.started:
            c.inconc("server did not start")
            return
        for n in sizes:
            name = "/huge-%d.bin" % n
            want = hashlib.sha256()
            with open(t.abs(name), "rb") as f:
                whole = f.read()
            for method, hdr, first in (("GET", "", 0), ("HEAD", "", 0), ("GET", "Range: bytes=5-\r\n", 5), ("GET", "Range: bytes=%d-\r\n" % (n - (1 << 26) - 3 if n > (1 << 26) + 3 else 1), (n - (1 << 26) - 3 if n > (1 << 26) + 3 else 1))):
                so = socket.socket()
                so.settimeout(120)
                chunks = []
                try:
                    so.connect((srv.ip, srv.port))
                    so.sendall(("%s %s HTTP/1.1\r\nHost: x\r\n%s\r\n" % (method, name, hdr)).encode())
                    while True:
                        ch = so.recv(1 << 20)
                        if not ch:
                            break
                        chunks.append(ch)
                except OSError:
                    pass
                finally:
                    so.close()
                buf = b"".join(chunks)
                head, _, body = buf.partition(b"\r\n\r\n")
                m = re.search(rb"(?i)content-length: *(\d+)", head)
                st = head[9:12].decode("latin-1")
                c.ev()
                c.cls("huge", n.bit_length(), method, "range" if hdr else "whole")
                expect_len = n - first
                rp = {"file": name, "size": n, "method": method, "range": hdr.strip(), "status": st, "content_length": m.group(1).decode() if m else None, "received": len(body)}
                if st != ("206" if hdr else "200") or not m or int(m.group(1)) != expect_len or (method == "GET" and body != whole[first:]):
                    c.violation("C02:huge-file:%s:%s" % (method, "range" if hdr else "whole"), "%s %s (%d bytes%s) answered %s, Content-Length %s, %d body bytes; expected %d" % (method, name, n, ", " + hdr.strip() if hdr else "", st, rp["content_length"], len(body), expect_len), rp)
                elif n > (1 << 26):
                    c.seen("a file above 64 MiB served in full")
    finally:
        if srv:
            srv.cleanup()
        t.cleanup()


def refused_characters(c, rng):
    """files whose path (the served directory's own name included) contains a character the file-ext dependency refuses:
    the property makes no exception for them"""
    names = {"space": " ", "ampersand": "&", "semicolon": ";", "single-quote": "'", "double-quote": '"', "pipe": "|"}
    for where in ("file-name", "root-name"):
        for cname, ch in names.items():
            if where == "file-name" and ch in " \"|":
                continue   # blank, '"' and '|' cannot be written raw into a request target, and the server does not decode escapes
            t = treegen.generate(rng.fork(where, cname), depth=0, n_files=3, symlinks=False, plant_secrets=False, tag="c02-refused", root_name=("site" + ch + "x") if where == "root-name" else "root")
            srv = None
            try:
                up = "/plain.txt" if where == "root-name" else "/na" + ch + "me.txt"
                data = b"content of a file whose path contains " + cname.encode() + b"\n" * 3
                t.add_file(up, data)
                srv = server.Server(t.root, threads=2)
                if not srv.started:
                    c.inconc("server did not start in %r" % t.root)
                    continue
                resp, end = srv.request(("GET %s HTTP/1.1\r\nHost: x\r\n\r\n" % up).encode("utf-8"))
                r = httpstrict.parse(resp)
                c.ev()
                c.cls("refused-character", where, cname)
                if r.status != 200 or r.body != data:
                    c.violation("C02:status:path-contains-character-refused-by-file-ext:%s:%s" % (where, cname),
                                "GET %s in served directory %r is answered %s (%d body bytes) although the file exists: its absolute path contains %r" % (up, os.path.basename(t.root), r.status, len(r.body), ch),
                                {"path": up, "root": t.root, "character": ch, "response_head": resp[:300].decode("latin-1")})
            finally:
                if srv:
                    srv.cleanup()
                t.cleanup()


def live_tree(c, rng, ext_types):
    """One long-lived server while the owner edits the served directory: every answer must reflect the tree as it is at
    the time of the request (the lookup and the bytes are those of the file on disk now - not of an earlier version, an
    earlier existence test or an earlier file of the same name)."""
    c.need("live tree: answers checked after an edit of the served directory")
    for variant in range(2 if c.quick else 12):
        t = treegen.generate(rng.fork("t", variant), depth=1, tag="c02-live-%d" % variant, root_index=(variant % 2 == 0), root_404=(variant % 2 == 0))
        srv = None
        try:
            srv = server.Server(t.root, threads=(1 if variant % 2 else 4))
            if not srv.started:
                c.inconc("server did not start")
                continue
            regular = sorted(k for k in t.files if os.path.dirname(k) in ("", "/") or k.count("/") == 1)[:3] + sorted(t.files)[-2:]
            hot = ["/index.html", "/404.html", "/style.css", "/script.js", "/favicon.svg"] + regular
            sub = sorted(t.dirs)[0] if t.dirs else None
            if sub:
                hot += [sub + "/index.html", sub + "/live.html"]
            # a link that is re-pointed while the server runs (the 'current -> releases/N' deploy): both targets keep existing
            link_targets = []
            for vi, size in enumerate((1200, 1500, 700)):
                name = "/live-release-%d.txt" % (vi + 1)
                t.add_file(name, (("release %d " % (vi + 1)).encode() * 400)[:size])
                link_targets.append(name)
            live_link = "/live-current.txt"
            if len(link_targets) >= 2:
                os.symlink(os.path.basename(link_targets[0]), t.abs(live_link))
                hot.append(live_link)
            version = 0
            steps = 40 if c.quick else 150
            # a fixed prologue (every special file is rewritten, deleted, re-created ... in turn), then random edits
            script = []
            for sp in ["/404.html", "/index.html"] + ([sub + "/index.html"] if sub else []) + regular[:1] + ["/style.css"]:
                for k in ("rewrite-same-length", "rewrite-same-length", "delete", "create", "rewrite-other-length", "rewrite-same-length-same-mtime", "delete"):
                    script.append((sp, k))
            if len(link_targets) >= 2:
                script += [(live_link, "repoint-symlink")] * 4
            for step in range(len(script) + steps):
                # --- one edit of the tree
                if step < len(script):
                    p, kind = script[step]
                else:
                    p = rng.choice(hot)
                    kind = rng.choice(["rewrite-same-length", "rewrite-same-length", "rewrite-same-length-same-mtime", "rewrite-other-length", "delete", "create", "touch"])
                ap = t.abs(p)
                exists = os.path.isfile(ap) and not os.path.islink(ap)
                version += 1
                if p == live_link and len(link_targets) >= 2:
                    kind = "repoint-symlink"
                    try:
                        tmp = ap + ".new"
                        os.symlink(os.path.basename(link_targets[version % len(link_targets)]), tmp)
                        os.replace(tmp, ap)
                    except OSError:
                        kind = "none"
                elif not exists and kind != "create":
                    kind = "create"
                try:
                    if kind in ("repoint-symlink", "none"):
                        pass
                    elif kind.startswith("rewrite") and exists:
                        old = open(ap, "rb").read()
                        n = len(old) if "same-length" in kind else max(1, len(old) + rng.choice([-7, 1, 13, 4096]))
                        st = os.stat(ap)
                        data = (("<!-- v%d %s -->" % (version, p)).encode() + rng.bytes(n))[:n]
                        if data == old:
                            data = bytes((b + 1) % 256 for b in old)
                        with open(ap, "wb") as f:
                            f.write(data)
                        if kind.endswith("same-mtime"):
                            os.utime(ap, ns=(st.st_atime_ns, st.st_mtime_ns))
                        t.files[p] = data
                    elif kind == "delete" and exists:
                        os.unlink(ap)
                        t.files.pop(p, None)
                    elif kind == "create" and not os.path.lexists(ap) and os.path.isdir(os.path.dirname(ap)):
                        data = ("<!-- created v%d %s -->\n" % (version, p)).encode() + rng.bytes(rng.choice([0, 20, 300]))
                        with open(ap, "wb") as f:
                            f.write(data)
                        t.files[p] = data
                    elif kind == "touch" and exists:
                        os.utime(ap, None)
                    else:
                        kind = "none"
                except OSError:
                    kind = "none"
                c.count("live_edit_" + kind)
                # --- the requests that could be affected, plus bystanders
                stem = p[:-5] if p.endswith(".html") else p
                paths = [p, stem, os.path.dirname(p) or "/", (os.path.dirname(p) or "") + "/", "/", "/no-such-%d.txt" % step, "/no/such/dir/", rng.choice(hot), rng.choice(sorted(t.files) or ["/"])]
                for q in dict.fromkeys(paths):
                    raw = ("GET %s HTTP/1.1\r\nHost: localhost\r\n\r\n" % q).encode("utf-8")
                    rs, srv2 = fetch.binary(srv, [raw], threads=None)
                    res = rs[0]
                    if not srv.alive():
                        c.violation("C02:no-response:crash:live-tree", "the server process ended on %r after a %s of %s" % (q, kind, p), {"path": q, "edit": kind, "edited": p})
                        raise StopIteration
                    branch, sel = models.lookup(t.root, q)
                    if q in BUILTIN and sel is None:
                        # '/', /style.css ... without a file of that name: the built-in page, not judged here
                        c.count("live_builtin_pages_not_judged")
                        continue
                    amb = ambiguous_pair(t, q)
                    c.ev()
                    judge(c, t, q, branch, sel, amb, res, "binary", ext_types, live=(kind, p))
                    c.seen("live tree: answers checked after an edit of the served directory")
                    c.cls("live", kind, branch, "edited" if q in (p, stem) else "bystander")
        except StopIteration:
            pass
        finally:
            if srv:
                srv.cleanup()
            t.cleanup()


def judge(c, t, p, branch, sel, amb, res, entry, ext_types, live=None):
    rp = {"path": p, "entry": entry, "lookup_branch": branch, "selected": sel, "tree": t.spec(), "request_b64": fetch.b64(res.raw_request), "response_head": res.response[:300].decode("latin-1")}
    if live:
        rp["after_edit"] = {"kind": live[0], "edited": live[1]}
    qf = ("q" if "?" in p else "") + ("f" if "#" in p else "")
    bare = p.split("?", 1)[0].split("#", 1)[0]
    is_link = os.path.islink(t.abs(bare.rstrip("/"))) if bare.rstrip("/") else False
    via_linkdir = any(bare.startswith(k + "/") for k in t.links if os.path.isdir(t.abs(k)))
    if res.crashed:
        # a crash while serving a servable path: the right file was not returned
        if sel is not None and not amb:
            what = "symlink" if (is_link or via_linkdir or os.path.islink(sel)) else branch
            c.violation("C02:no-response:crash:%s" % what, "request for %r (lookup selects %s) crashed the handler: %s" % (p, sel, res.obs.summary()[:200] if res.obs else res.end), rp)
        else:
            c.count("crashes_on_unservable_paths (C04's business)")
        return
    r = httpstrict.parse(res.response)
    if not res.response or (r.errors and not r.status):
        if entry == "binary" and not res.response:
            c.violation("C02:no-response:binary", "no response bytes for %r" % p, rp)
        return
    if amb:
        c.count("ambiguous_pair_directory_without_index_plus_sibling_html (not judged)")
        return
    if branch == "html-fallback" and bare.endswith(".html"):
        # 'X.html' requested, only 'X.html.html' exists: the server deliberately does not append '.html' to a path that already
        # ends in it; the documented lookup does not speak about this double suffix - recorded, not judged
        c.count("html_fallback_for_a_path_that_already_ends_in_html (not judged)")
        return
    if "#" in p and "?" in p and p.index("#") < p.index("?"):
        # a '#' before the '?': by RFC 3986 the fragment starts at the '#' and swallows the '?'; the url library of the server
        # cuts at the '?' first. No client sends a fragment at all - the corner is recorded, not judged (C01 does scan it)
        c.count("target_with_hash_before_question_mark (not judged)")
        return
    if branch == "file" and (entry != "legacy" or True):
        pass
    # the legacy entry point does not serve directories / .html fallbacks / queries: only its common domain is judged
    if entry == "legacy" and (branch != "file" or qf):
        if r.status == 200 and sel is not None:
            data = open(sel, "rb").read()
            if r.body != data:
                c.violation("C02:legacy:wrong-bytes", "legacy entry point answered 200 with other bytes for %r" % p, rp)
        return
    if sel is not None:
        data = open(sel, "rb").read()
        ext = models.ext_of(sel)
        cls = (branch + ("+symlink" if is_link or via_linkdir else ""), size_class(len(data)), name_class(sel), ext, qf, entry)
        if not (branch == "file" and len(data) < 4096 and name_class(sel) == "plain" and not qf and not is_link):
            c.cls(*cls)
        c.seen({"file": "file", "dir-index": "dir-index", "html-fallback": "html-fallback"}[branch])
        if is_link and os.path.isfile(t.abs(bare)):
            c.seen("symlinked file")
        if via_linkdir or (is_link and os.path.isdir(t.abs(bare.rstrip("/")))):
            c.seen("symlinked dir")
        if len(data) == 0:
            c.seen("empty file")
        if len(data) > 10000:
            c.seen("file > buffer size")
        what = "symlink" if (is_link or via_linkdir or os.path.islink(sel)) else branch
        if r.status != 200:
            c.violation("C02:status:%s:%s:expected-200-got-%s%s" % (what, "empty" if len(data) == 0 else "nonempty", r.status, ":query" if qf else ""), "lookup selects %s for %r but the answer is %s" % (sel, p, r.status), rp)
            return
        if r.body != data:
            k = next((j for j in range(min(len(r.body), len(data))) if r.body[j] != data[j]), min(len(r.body), len(data)))
            other = next((up for mk, up in t.markers.items() if mk in r.body and t.abs(up) != sel), None)
            c.violation("C02:body:%s:%s" % (what, "another-files-content" if other else ("length" if len(r.body) != len(data) else "bytes")),
                        "body for %r differs from %s at offset %d (%d vs %d bytes)%s" % (p, sel, k, len(r.body), len(data), "; it carries the content of " + other if other else ""), rp)
        cl = r.get("content-length")
        if r.body != data:
            pass  # one mechanism, one signature
        elif cl is None or not cl.isdigit() or int(cl) != len(data):
            c.violation("C02:content-length:%s" % what, "Content-Length %r for %r, file has %d bytes" % (cl, p, len(data)), rp)
        ct = r.get("content-type")
        real_ext = models.ext_of(os.path.realpath(sel))
        if real_ext != ext:
            # a link whose name and target carry different extensions: "its extension" is ambiguous - not judged
            c.count("symlink_with_different_extension_than_target (media type not judged)")
            return
        ok = models.type_ok(ext, ct)
        if ok is False:
            c.violation("C02:media-type:%s" % (ext or "no-extension"), "Content-Type %r for extension %r (%s)" % (ct, ext, sel), rp)
        if ext is not None:
            ext_types.setdefault(ext, set()).add((ct or "").strip().lower())
        if len(c.samples) < 6 and cls[0] != "file" and c.evaluations % 17 == 0:
            c.sample({"path": p, "entry": entry, "branch": branch, "selected": sel.replace(t.root, "<root>"), "size": len(data), "content_type": ct})
    else:
        c.seen("nothing (404)")
        c.cls(branch, "-", name_class(bare), None, qf, entry)
        if r.status != 404:
            c.violation("C02:status:nothing-selected:got-%s:%s" % (r.status, branch), "lookup selects nothing for %r but the answer is %s" % (p, r.status), rp)
            return
        # body is the built-in 404 page or the root's 404.html: no other file's marker, no listing
        for mk, up in t.markers.items():
            if mk in r.body and up != "/404.html":
                c.violation("C02:404-body:another-files-content", "404 for %r carries the content of %s" % (p, up), rp)
                break
        if branch == "dir-no-index":
            try:
                names = [n for n in os.listdir(t.root + bare) if len(n) > 3]
            except OSError:
                names = []
            # names the 404 page itself mentions (its own stylesheet / icon links) prove nothing
            hits = [n for n in names if n.encode("utf-8") in r.body and n not in ("style.css", "script.js", "favicon.svg", "index.html", "404.html")]
            if len(hits) >= 2:
                c.violation("C02:404-body:directory-listing", "404 for directory %r lists %r" % (p, hits[:4]), rp)

"""C17 - Form and query decoding returns the submitted fields (DESIGN.md section 4, C17)."""
import base64, unicodedata
from .. import core, server, httpstrict
from ..gen import text, tree as treegen

RESERVED = "&=%+?#/:;,@[]()!$'*\" "
LATE_CODES = ["26", "27", "28", "29", "2A", "2B", "2C", "2F", "3A", "3B", "3D", "3F", "40", "5B", "5D"]


def gen_str(rng, feats):
    n = rng.range(1, 12)
    out = []
    for _ in range(n):
        r = rng.below(12)
        if r < 4:
            out.append(rng.choice("abcdefghijklmnopqrstuvwxyzABCXYZ0123456789"))
        elif r < 7:
            ch = rng.choice(RESERVED)
            out.append(ch)
            feats.add("reserved:" + ch)
        elif r == 7:
            code = "%02X" % rng.below(256) if rng.chance(1, 2) else "%02x" % rng.below(256)
            out.append("%" + code)
            feats.add("percent-hex")
            if code.upper() in LATE_CODES:
                feats.add("percent-hex-late-code")
        elif r == 8:
            out.append("%" + rng.choice(["zz", "G1", "%", "", "1", "x"]))
            feats.add("percent-nonhex")
        elif r == 9:
            out.append(rng.choice(text.UNI[:40]))
            feats.add("multibyte")
        elif r == 10:
            out.append(rng.choice(["\U0001F600", "\U00010348", "\U0001D11E"]))
            feats.add("astral")
        else:
            out.append(rng.choice("-_.~"))
    s = "".join(out)
    return s if s.isprintable() and s else "v"


def gen_map(rng):
    feats = set()
    m = {}
    for _ in range(rng.choice([0, 1, 1, 2, 3, 5, 20])):
        k = gen_str(rng, feats)
        v = gen_str(rng, feats)
        if k not in m:
            m[k] = v
    return m, feats


def map_fields(m):
    f = [str(len(m))]
    for k, v in m.items():
        f += [k, v]
    return f


def decode_map(o, base):
    n = o.n(base)
    return {o.s(base + 1 + 2 * i): o.s(base + 2 + 2 * i) for i in range(n)}


def classify(m, got):
    """name the essential feature of the first field that did not come back"""
    for k, v in m.items():
        if got.get(k) != v:
            for s in (k, v):
                for code in LATE_CODES:
                    if ("%" + code) in s.upper():
                        return "percent-literal-before-late-code"
            for s, nm in ((k, "key"), (v, "value")):
                if "%" in s:
                    return "percent-in-" + nm
                if "+" in s:
                    return "plus-in-" + nm
                if " " in s:
                    return "space-in-" + nm
                for ch in "&=#?":
                    if ch in s:
                        return "reserved-%s-in-%s" % ({"&": "amp", "=": "eq", "#": "hash", "?": "qmark"}[ch], nm)
                if any(ord(ch) > 0xFFFF for ch in s):
                    return "astral-in-" + nm
                if any(ord(ch) > 127 for ch in s):
                    return "multibyte-in-" + nm
            return "other"
    extra = set(got) - set(m)
    return "extra-fields" if extra else "other"


def run(c):
    c.rule = ("maps of 0..20 distinct non-empty printable keys/values weighted towards reserved characters (& = % + ? # / : ; , @ [ ] ( ) ! $ ' * \\\" space), '%'+hex (all codes, both cases), '%'+non-hex, "
              "multi-byte and astral characters; through URL::parse_query(build_query(m)), FormUrlEncoded::parse(generate(m)) and the two echo endpoints of the running server. "
              "Class = (feature set, entry point); non-trivial = contains a reserved, percent or non-ASCII character.")
    rng = c.rng
    n = 20000 if c.quick else 600000
    maps = []
    # long values and many fields: lengths / counts around powers of two (plain characters: the sizes are the point)
    for k in range(4, 14 if c.quick else 16):
        for d in (-1, 0, 1):
            L = (1 << k) + d
            maps.append(({"long": "v" * L}, {"size:value-2^%d" % k}))
            maps.append(({"k" * L: "v"}, {"size:key-2^%d" % k}))
            maps.append(({"a": "x", "long": ("ab c&d=" * L)[:L], "z": "y"}, {"size:reserved-value-2^%d" % k}))
    # field names that differ only in letter case, in their normalisation or by surrounding reserved characters are different fields
    for m in ({"Name": "Alice", "name": "bob"}, {"id": "1", "ID": "2", "Id": "3", "iD": "4"}, {"a": "x", "A": "x"}, {"k": "v", "K": "V", "\u212a": "kelvin"}, {"caf\u00e9": "nfc", "cafe\u0301": "nfd"},
              {"a b": "1", "a+b": "2", "a%20b": "3"}, {"x": "1", "x ": "2", " x": "3"}, {"q": "a", "q[]": "b", "q[0]": "c"}, {"\u00df": "sharp", "ss": "double", "SS": "upper"}, {"i": "latin", "\u0130": "dotted", "\u0131": "dotless"}):
        maps.append((m, {"names:near-duplicates"}))
    # names and values that a formatting / templating layer might treat as its own
    for tok in ("{value}", "{name}", "{key}", "{0}", "{}", "{{x}}", "%s", "%d", "$1", "${x}", "$name", "&amp;", "&lt;", "\\n", "\\1", "<b>", "-->", "';--", "../x", "C:\\x"):
        maps.append(({"total" + tok: "42", "plain": "v"}, {"names:template-lookalike"}))
        maps.append(({"k": "a" + tok + "b", tok: tok}, {"names:template-lookalike"}))
    for cnt in (31, 32, 33, 63, 64, 65, 127, 128, 129, 255, 256, 257, 500) + (() if c.quick else (1000, 1024, 1025, 4000)):
        maps.append(({"f%d" % j: "v%d" % j for j in range(cnt)}, {"size:fields-%d" % cnt}))
    for cnt in (999, 1000, 1001, 1023, 1024, 1025, 1200):
        # short names and values: a thousand fields still fit into one read of the echo endpoints
        maps.append(({"%x" % j: "%d" % (j % 10) for j in range(cnt)}, {"size:fields-%d" % cnt}))
    for i in range(n):
        m, feats = gen_map(rng)
        maps.append((m, feats))
    for cat in ("'%'+hex", "'%'+non-hex", "astral character", "entry point query", "entry point form body", "entry point echo GET", "entry point echo POST") + tuple("reserved " + repr(ch) for ch in "&=%+?#/"):
        c.need(cat)
    for op, entry in (("query.roundtrip", "query"), ("form.roundtrip", "form body")):
        cases = [core.Case("%s%d" % (op[0], i), op, map_fields(m)) for i, (m, f) in enumerate(maps)]
        for lane in ("rel", "chk"):
            obs = core.run_cases(cases, lane=lane, poison="form")
            for i, cs in enumerate(cases):
                m, feats = maps[i]
                o = obs.get(cs.id)
                c.ev()
                if o is None or o.outcome == "missing":
                    c.inconc("no observation " + cs.id)
                    continue
                if feats:
                    c.cls(tuple(sorted(f.split(":")[0] for f in feats)), entry)
                c.seen("entry point " + entry)
                for f in feats:
                    if f == "percent-hex":
                        c.seen("'%'+hex")
                    if f == "percent-nonhex":
                        c.seen("'%'+non-hex")
                    if f == "astral":
                        c.seen("astral character")
                    if f.startswith("reserved:") and f[-1] in "&=%+?#/":
                        c.seen("reserved " + repr(f[-1]))
                rp = {"entry": entry, "map": dict(list(m.items())[:8]), "lane": lane}
                if o.outcome in ("panic", "died", "timeout"):
                    c.crash(entry, o, cs, rp)
                    continue
                if o.outcome != "ok":
                    c.violation("C17:%s:error" % entry.replace(" ", "-"), "returned Err(%s)" % o.err, rp)
                    continue
                if op == "form.roundtrip":
                    if o.s(1) != "ok":
                        c.violation("C17:decode:form-body-error:%s" % classify(m, {}), "FormUrlEncoded::parse failed on the encoder's own output: %s" % o.s(2), rp)
                        continue
                    got = decode_map(o, 2)
                else:
                    got = decode_map(o, 1)
                rp["encoded"] = o.s(0)[:300]
                if got != m:
                    c.violation("C17:decode:%s" % classify(m, got), "decoded fields differ via %s: sent %r, got %r" % (entry, dict(list(m.items())[:3]), dict(list(got.items())[:3])), rp)
                if len(c.samples) < 5 and feats and i % 997 == 0:
                    c.sample({"entry": entry, "map": dict(list(m.items())[:3]), "encoded": o.s(0)[:100]})
    echo(c, rng, maps)


def echo(c, rng, maps):
    t = treegen.generate(rng.fork("tree"), depth=0, n_files=2, symlinks=False, plant_secrets=False, tag="c17")
    srv = None
    try:
        # the encoder's own output for each map (query.roundtrip returns it)
        pick = [maps[i] for i in sorted(rng.sample(range(len(maps)), min(len(maps), 700 if c.quick else 8000)))]
        pick += [x for x in maps if any(f.startswith("size:") or f.startswith("names:") for f in x[1]) and x not in pick]
        cases = [core.Case("e%d" % i, "query.roundtrip", map_fields(m)) for i, (m, f) in enumerate(pick)]
        obs = core.run_cases(cases)
        srv = server.Server(t.root, threads=4)
        if not srv.started:
            c.inconc("server did not start")
            return
        for i, (m, feats) in enumerate(pick):
            o = obs.get("e%d" % i)
            if o is None or o.outcome != "ok" or not m:
                continue
            enc = o.s(0)
            for kind in ("echo GET", "echo POST"):
                if kind == "echo GET":
                    raw = ("GET /form-get-method?%s HTTP/1.1\r\nHost: x\r\n\r\n" % enc).encode("utf-8")
                else:
                    body = enc.encode("utf-8")
                    # header names in any letter case and either order (they are case-insensitive)
                    ctn, cln = rng.choice([("Content-Type", "Content-Length")] * 3 + [("content-type", "content-length"), ("CONTENT-TYPE", "CONTENT-LENGTH"), ("Content-type", "Content-length")])
                    hl = ["%s: application/x-www-form-urlencoded" % ctn, "%s: %d" % (cln, len(body))]
                    if rng.chance(1, 3):
                        hl.reverse()
                    raw = ("POST /form-url-encoded-enctype-post-method HTTP/1.1\r\nHost: x\r\n%s\r\n\r\n" % "\r\n".join(hl)).encode() + body
                if len(raw) > 9000:
                    continue
                data, end = srv.request(raw)
                c.ev()
                if feats:
                    c.cls(tuple(sorted(f.split(":")[0] for f in feats)), kind)
                rp = {"entry": kind, "map": dict(list(m.items())[:8]), "request_b64": base64.b64encode(raw).decode()}
                if not srv.alive() or len(srv.workers_alive()) < 4:
                    rp["census"] = srv.census()
                    rp["log_tail"] = srv.stderr_text()[-800:]
                    c.violation("C17:%s:worker-lost" % kind.replace(" ", "-"), "echo endpoint killed a worker: %s" % srv.crash_lines()[:2], rp)
                    srv.cleanup()
                    srv = server.Server(t.root, threads=4)
                    continue
                r = httpstrict.parse(data)
                if r.errors or r.status != 200:
                    c.violation("C17:%s:status-%s:%s" % (kind.replace(" ", "-"), r.status, classify(m, {})), "echo endpoint answered %s %s" % (r.status, r.errors[:1]), rp)
                    continue
                c.seen("entry point " + kind)
                lines = set(x for x in r.body.decode("utf-8", "replace").split("\r\n") if x)
                want = set("%s is %s" % (k, v) for k, v in m.items())
                if lines != want:
                    got = {}
                    for ln in lines:
                        if " is " in ln:
                            k, v = ln.split(" is ", 1)
                            got[k] = v
                    c.violation("C17:decode:%s" % classify(m, got), "via %s: echo lists %r, expected %r" % (kind, sorted(lines)[:3], sorted(want)[:3]), rp)
    finally:
        if srv:
            srv.cleanup()
        t.cleanup()

"""C14 - Request parsing accepts exactly well-formed requests and round-trips them (DESIGN.md section 4, C14)."""
import base64
from .. import core
from ..gen import text

METHODS = ["GET", "HEAD", "POST", "PUT", "DELETE", "CONNECT", "OPTIONS", "TRACE", "PATCH"]
VERSIONS = ["HTTP/0.9", "HTTP/1.0", "HTTP/1.1", "HTTP/2.0"]


def gen_request(rng, i):
    method = METHODS[i % 9]
    version = VERSIONS[(i // 9) % 4]
    target = rng.choice(["/", "/a/b.html", "*", "/x?y=1&z=2#f", "/%E4%B8%AD", "/файл.txt", "http://h:80/p", "/a:b", "/a=b", "/" + text.printable(rng, 1, 30, exclude=" \t\r\n")])
    nh = rng.choice([0, 0, 1, 2, 3, 5, 8, 50])
    headers, feats = [], set()
    for _ in range(nh):
        r = rng.below(12)
        if r == 0:
            name = text.token(rng) + ":" + text.token(rng)   # ':' without a space
            feats.add("name-colon")
        elif r == 1:
            name = text.token(rng) + "=" + text.token(rng)
        elif r == 2:
            name = rng.choice(["Content-Length", "content-length"])
        else:
            name = rng.choice(["Host", "X-" + text.token(rng), "Accept", "User-Agent", "Cookie", text.token(rng)])
        r = rng.below(14)
        if name.lower() == "content-length":
            value = str(rng.below(100000)) if r else rng.choice(["abc", "", "1 2", "-1", "12345678901234567890123"])
            if not value.isdigit():
                feats.add("content-length-non-number")
        elif r == 0:
            value, _ = "", feats.add("value-empty")
        elif r == 1:
            value, _ = text.printable(rng, 1, 10) + ": " + text.printable(rng, 1, 10), feats.add("value-sep")
        elif r == 2:
            value, _ = "a: b: c: d", feats.add("value-sep-multi")
        elif r == 3:
            value, _ = " " + text.token(rng), feats.add("value-leading-space")
        elif r == 4:
            value, _ = text.token(rng) + " ", feats.add("value-trailing-space")
        elif r == 5:
            value, _ = "k=v; a=b, c:d", feats.add("value-colon-equals")
        elif r == 6:
            value, _ = text.printable(rng, 1, 40, weights=(1, 1, 6)), feats.add("value-unicode")
        else:
            value = text.printable(rng, 1, 30, weights=(8, 2, 0)).strip() or "v"
            if ": " in value:
                feats.add("value-sep")
        headers.append((name, value))
    r = rng.below(12)
    body_kind = ["empty", "text", "allbytes", "crlf-first", "lf-first", "header-like", "nul", "big", "blank-inside", "binary", "text", "empty"][r]
    body = {"empty": b"", "text": b"hello body", "allbytes": bytes(range(256)), "crlf-first": b"\r\nafter", "lf-first": b"\nafter", "header-like": b"X-Injected: 1\r\n\r\nrest",
            "nul": b"\x00\x00a\x00", "big": rng.bytes(65536), "blank-inside": b"a\r\n\r\nb\r\n\r\n", "binary": rng.bytes(rng.below(300))}[body_kind]
    return method, target, version, headers, body, feats, body_kind


def own_serialise(method, target, version, headers, body):
    out = ("%s %s %s\r\n" % (method, target, version)).encode("utf-8")
    for k, v in headers:
        out += ("%s: %s\r\n" % (k, v)).encode("utf-8")
    return out + b"\r\n" + body


def run(c):
    c.rule = ("round trips: 9 methods x 4 versions x targets without whitespace x 0..50 headers (names with ':' / '=' / digits, values with ': ', colons, '=', spaces, Unicode, empty) x bodies "
              "(empty, binary, starting with CRLF/LF/a header-looking line, NUL, 64 KiB); request-line near misses (unknown method/version, missing parts, non-UTF-8 byte at every position). "
              "Class = (method, version, #headers class, value features, body class) or (near-miss kind); non-trivial = has >= 1 header feature or non-text body, or is a near miss.")
    rng = c.rng
    n = 20000 if c.quick else 400000
    cases, meta = [], {}
    # size sweep: one long element (target, header value, header name, number of headers) with a length around every power
    # of two up to 64 KiB (256 KiB thorough) - the parsed request must still be the request that was serialised
    sized = []
    for k in range(5, 17 if c.quick else 19):
        for d in (-1, 0, 1):
            L = (1 << k) + d
            sized.append(("GET", "/" + "t" * L, "HTTP/1.1", [("Host", "h")], b"", {"size:target-2^%d" % k}, "empty"))
            sized.append(("GET", "/p?q=" + "v" * L, "HTTP/1.1", [("Host", "h")], b"", {"size:query-2^%d" % k}, "empty"))
            sized.append(("POST", "/", "HTTP/1.1", [("Host", "h"), ("X-Long", "x" * L), ("After", "1")], b"b", {"size:header-value-2^%d" % k}, "text"))
            sized.append(("POST", "/", "HTTP/1.1", [("Origin", "https://" + "o" * L + ".example"), ("After", "1")], b"b", {"size:origin-2^%d" % k}, "text"))
            sized.append(("POST", "/", "HTTP/1.1", [("N" * L, "v"), ("After", "1")], b"", {"size:header-name-2^%d" % k}, "empty"))
            if k <= 12:
                sized.append(("GET", "/", "HTTP/1.1", [("H%d" % j, "v%d" % j) for j in range(L)], b"", {"size:header-count-2^%d" % k}, "empty"))
    # whole messages whose serialised length is exactly a buffer-like size (the documented 10000-byte read, powers of two),
    # with bodies that end in bytes a buffer might be padded with; every total in a window around each size is produced
    for total in (4096, 8192, 10000, 12000, 16384, 65536):
        for blen in range(total - 30 - 9, total - 30 + 10):
            for ending in (b"\x00\x00\x00\x00", b"\r\n", b" "):
                sized.append(("POST", "/", "HTTP/1.1", [("Host", "h")], b"b" * (blen - len(ending)) + ending, {"size:total-%d" % total}, "binary"))
    # absolute-form targets that name the request's own Host (and ones that do not): the target is data, it comes back as it was
    for host in ("example.com", "example.com:8080", "EXAMPLE.com", "[::1]:7878", "h"):
        for tgt in ("http://%s/index.html?a=b" % host, "http://%s" % host, "http://%s/" % host, "https://%s/x" % host, "HTTP://%s/p#f" % host.upper()):
            sized.append(("GET", tgt, "HTTP/1.1", [("Host", host), ("Accept", "*/*")], b"", {"target:absolute-form-own-host"}, "empty"))
            sized.append(("GET", tgt, "HTTP/1.1", [("Accept", "*/*"), ("host", host.lower())], b"", {"target:absolute-form-own-host"}, "empty"))
    for i in range(len(sized) + n):
        m, t, v, hs, body, feats, bk = sized[i] if i < len(sized) else gen_request(rng, i)
        fields = [m, t, v, str(len(hs))]
        for k, val in hs:
            fields += [k, val]
        fields.append(body)
        cid = "r%d" % i
        cases.append(core.Case(cid, "req.roundtrip", fields))
        meta[cid] = (m, t, v, hs, body, feats, bk)
    for cat in ("0 headers", "50 headers", "': ' inside a value", "binary body", "near miss: unknown method", "near miss: unknown version", "near miss: missing part", "near miss: non-UTF-8 byte"):
        c.need(cat)
    core.cold_race_check(c, "C14", [cs for cs in cases if len(cs.line()) < 4000][len(sized):len(sized) + 12], trials=30 if c.quick else 600)
    for lane in ("rel", "chk"):
        obs = core.run_cases(cases, lane=lane, poison="http")
        for cs in cases:
            o = obs.get(cs.id)
            m, t, v, hs, body, feats, bk = meta[cs.id]
            c.ev()
            if o is None or o.outcome == "missing":
                c.inconc("no observation " + cs.id)
                continue
            if feats or bk not in ("text", "empty"):
                c.cls(m, v, "h0" if not hs else ("h50" if len(hs) >= 50 else "h+"), tuple(sorted(feats)), bk)
            if not hs:
                c.seen("0 headers")
            if len(hs) >= 50:
                c.seen("50 headers")
            if "value-sep" in feats or "value-sep-multi" in feats:
                c.seen("': ' inside a value")
            if bk in ("allbytes", "binary", "big", "nul"):
                c.seen("binary body")
            rp = {"request": {"method": m, "target": t, "version": v, "headers": hs[:10], "body_b64": base64.b64encode(body[:300]).decode()}, "lane": lane}
            if o.outcome in ("panic", "died", "timeout"):
                c.crash("Request::parse(Request::generate(r))", o, cs, rp)
                continue
            if o.outcome != "ok":
                c.inconc("unexpected outcome %s" % o.outcome)
                continue
            gen = o.fields[0]
            if gen != own_serialise(m, t, v, hs, body):
                # observed, not judged: the property asks for a round trip, not for particular bytes
                # (the serialiser leaves a space between the version and CRLF)
                c.count("serialisation_differs_from_textbook_grammar_not_judged")
            if o.s(1) != "ok":
                c.violation("C14:reject-wellformed:%s" % ("+".join(sorted(feats)) or "plain"), "parse rejected a well-formed generated request: %s" % o.s(2), rp)
                continue
            pm, pt, pv, pn = o.s(2), o.s(3), o.s(4), o.n(5)
            ph = [(o.s(6 + 2 * k), o.s(7 + 2 * k)) for k in range(pn)]
            pbody = o.fields[6 + 2 * pn] if len(o.fields) > 6 + 2 * pn else b""
            if (pm, pt, pv) != (m, t, v):
                c.violation("C14:roundtrip:request-line", "request line came back as %r" % ((pm, pt, pv),), rp)
            if ph != hs:
                if ph[1:] == hs and ph[:1] == [("", "")]:
                    c.violation("C14:roundtrip:headers:spurious-empty-first-header", "parsed header list starts with an extra Header{name:\"\",value:\"\"} (pushed for the request line)", rp)
                else:
                    body_ph = ph[1:] if ph[:1] == [("", "")] else ph
                    k = next((j for j in range(min(len(body_ph), len(hs))) if body_ph[j] != hs[j]), None)
                    if k is None:
                        why = "count:%d-vs-%d" % (len(body_ph), len(hs))
                    else:
                        (en, ev_), (gn, gv) = hs[k], body_ph[k]
                        if gn != en:
                            why = "name"
                        elif ": " in ev_:
                            why = "value-cut-at-second-separator" if ev_.startswith(gv) else "value-with-separator"
                        elif ev_.strip() == gv.strip():
                            why = "value-whitespace"
                        else:
                            why = "value"
                    c.violation("C14:roundtrip:headers:%s" % why, "header sequence differs: sent %r got %r" % (hs[k] if k is not None else len(hs), body_ph[k] if k is not None else len(body_ph)), rp)
            if pbody != body:
                c.violation("C14:roundtrip:body:%s" % bk, "body differs (%d vs %d bytes)" % (len(pbody), len(body)), rp)
            if len(c.samples) < 5 and feats:
                c.sample({"kind": "roundtrip", "method": m, "target": t, "version": v, "headers": hs[:4], "body_kind": bk, "lane": lane})
    # ---- header lookup ignores letter case
    cases, meta = [], {}
    for i in range(2000 if c.quick else 30000):
        m, t, v, hs, body, feats, bk = gen_request(rng, i)
        if not hs:
            continue
        fields = [m, t, v, str(len(hs))]
        for k, val in hs:
            fields += [k, val]
        fields.append(b"")
        qs = []
        for k, val in rng.sample(hs, min(4, len(hs))):
            q = "".join(ch.upper() if rng.chance(1, 2) else ch.lower() for ch in k)
            qs.append(q)
        fields.append(str(len(qs)))
        fields += qs
        cid = "g%d" % i
        cases.append(core.Case(cid, "req.get_header", fields))
        meta[cid] = (hs, qs)
    obs = core.run_cases(cases)
    for cs in cases:
        o = obs.get(cs.id)
        hs, qs = meta[cs.id]
        c.ev()
        if o is None or o.outcome != "ok":
            if o is not None and o.outcome in ("panic", "died", "timeout"):
                c.crash("Request::get_header", o, cs)
            continue
        for j, q in enumerate(qs):
            want = next((val for k, val in hs if k.lower() == q.lower()), None)
            got = o.s(3 * j + 2) if o.s(3 * j) == "some" else None
            c.cls("get_header", "recased" if q not in [k for k, _ in hs] else "exact")
            if want != got:
                c.violation("C14:get_header:case-sensitive", "get_header(%r) returned %r, expected %r" % (q, got, want), {"headers": hs[:6], "query": q})
    # ---- accept / reject boundary of the request line
    lines = []
    for m in METHODS:
        for v in VERSIONS:
            lines.append(("valid", ("%s /p %s" % (m, v)).encode(), True))
            lines.append(("unknown-method", ("%sX /p %s" % (m, v)).encode(), False))
            lines.append(("unknown-method", ("%s /p %s" % (m[:-1], v)).encode(), False))
            lines.append(("unknown-version", ("%s /p %s" % (m, v[:-1] + "7")).encode(), False))
            lines.append(("unknown-version", ("%s /p %sx" % (m, v)).encode(), False))
            lines.append(("missing-part", ("%s %s" % (m, v)).encode(), False))
            lines.append(("missing-part", ("%s /p" % m).encode(), False))
            lines.append(("missing-part", m.encode(), False))
            lines.append(("lower-case", ("%s /p %s" % (m.lower(), v.lower())).encode(), None))
            lines.append(("double-space", ("%s  /p %s" % (m, v)).encode(), None))
            lines.append(("tab", ("%s\t/p\t%s" % (m, v)).encode(), None))
            lines.append(("trailing-garbage", ("%s /p %s garbage" % (m, v)).encode(), False))
    lines += [("missing-part", b"", False), ("missing-part", b" ", False), ("unknown-method", b"FOO / HTTP/1.1", False), ("unknown-version", b"GET / HTTP/3.0", False), ("unknown-version", b"GET / FTP/1.1", False)]
    base = b"POST /some/path?q=1 HTTP/1.1"
    for pos in range(len(base) + 1):
        for bad in (b"\xff", b"\xc3", b"\xe2\x82"):
            lines.append(("non-utf8", base[:pos] + bad + base[pos:], False))
    # the input may end right behind the line: no terminator, possibly in the middle of a multi-byte character
    for m in METHODS[:3]:
        for bad in (b"\xe2\x82", b"\xc3", b"\xf0\x9f", b"\xf0\x9f\x98", b"\xff", b"\x80"):
            lines.append(("non-utf8-at-end-of-input", ("%s /path HTTP/1.1" % m).encode() + bad, False))
            lines.append(("non-utf8-at-end-of-input", ("%s /pa" % m).encode() + bad, False))
    cases, meta = [], {}
    for i, (kind, ln, want) in enumerate(lines):
        for tail in ((b"",) if kind == "non-utf8-at-end-of-input" else (b"\r\nHost: h\r\n\r\n", b"\r\n\r\n", b"\n\n")):
            cid = "l%d-%d" % (i, len(tail))
            cases.append(core.Case(cid, "req.parse", [ln + tail]))
            meta[cid] = (kind, ln, want)
    for lane in ("rel", "chk"):
        obs = core.run_cases(cases, lane=lane, poison="http")
        for cs in cases:
            o = obs.get(cs.id)
            kind, ln, want = meta[cs.id]
            c.ev()
            c.cls("line", kind)
            if kind.startswith("unknown-method"):
                c.seen("near miss: unknown method")
            if kind.startswith("unknown-version"):
                c.seen("near miss: unknown version")
            if kind == "missing-part":
                c.seen("near miss: missing part")
            if kind.startswith("non-utf8"):
                c.seen("near miss: non-UTF-8 byte")
            if o is None or o.outcome == "missing":
                c.inconc("no observation " + cs.id)
                continue
            if o.outcome in ("panic", "died", "timeout"):
                c.crash("Request::parse", o, cs, {"line": ln.decode("latin-1")})
                continue
            if want is True and o.outcome != "ok":
                c.violation("C14:reject-wellformed:request-line", "parse returned Err(%s) for the well-formed line %r" % (o.err, ln), {"line": ln.decode("latin-1")})
            if want is False and o.outcome == "ok":
                c.violation("C14:accept-malformed:%s" % kind, "parse returned Ok for the %s line %r" % (kind, ln), {"line": ln.decode("latin-1")})
            if len(c.samples) < 9 and kind != "valid" and hash(cs.id) % 50 == 0:
                c.sample({"kind": "request-line", "class": kind, "line": ln.decode("latin-1"), "outcome": o.outcome})

"""C19 - JSON serialisation round-trips and is valid JSON (DESIGN.md section 4, C19)."""
import json, struct, math, base64, re
from .. import core
from ..gen import text

INT_LISTS = {"li8": (-2 ** 7, 2 ** 7 - 1), "li16": (-2 ** 15, 2 ** 15 - 1), "li32": (-2 ** 31, 2 ** 31 - 1), "li64": (-2 ** 63, 2 ** 63 - 1), "li128": (-2 ** 127, 2 ** 127 - 1),
             "lu8": (0, 2 ** 8 - 1), "lu16": (0, 2 ** 16 - 1), "lu32": (0, 2 ** 32 - 1), "lu64": (0, 2 ** 64 - 1), "lu128": (0, 2 ** 128 - 1)}
KIND_OF = {"s": "str", "s2": "str", "b": "bool", "b2": "bool", "i": "int", "i2": "int", "f": "f64", "f2": "f64", "o": "obj", "a": "arr", "ls": "l_str", "lb": "l_bool", "lf32": "l_f32", "lf64": "l_f64", "ln": "l_null"}
for _k in INT_LISTS:
    KIND_OF[_k] = "l_" + _k[1:]
ORDER = ["s", "b", "i", "f", "o", "a", "s2", "b2", "i2", "f2", "ls", "lb", "li8", "li16", "li32", "li64", "li128", "lu8", "lu16", "lu32", "lu64", "lu128", "lf32", "lf64", "ln"]


def f32(x):
    return struct.unpack("<f", struct.pack("<f", x))[0]


def gen_str(rng):
    k = rng.below(14)
    if k == 0:
        return ""
    if k == 1:
        return rng.choice(["true", "false", "null", "True", "nul"])
    if k == 2:
        return "".join(rng.choice("0123456789") for _ in range(rng.range(1, 12)))
    if k == 3:
        return rng.choice(["{", "}", "{}", "a}b", "{a", "}{"]) + text.token(rng, 0, 4)
    if k == 4:
        return rng.choice(["[", "]", "[]", "a]b", "[1,2]"]) + text.token(rng, 0, 4)
    if k == 5:
        return rng.choice(["a,b", ",", "x, y", "a:b", ":", "k: v", "a, \"b\"".replace('"', "")])
    if k == 6:
        return "".join(rng.choice(text.UNI[:40]) for _ in range(rng.range(1, 6)))
    if k == 7:
        return rng.choice(["\U0001F600", "a\U00010348b", "\U0001D11E\U0001D11E"])
    if k == 8:
        # text that a formatting / templating / escaping layer might treat as its own: placeholders, format directives,
        # entity and escape look-alikes, the last printable ASCII neighbours (DEL is legal unescaped in a JSON string)
        return rng.choice(["two words and more", "Dear {name}, welcome", "{value}", "{name}: {value}", "{0} and {1}", "{}", "{{x}}", "%s and %d", "100%", "$1 ${x} $name", "&amp; &lt;x&gt;",
                           "a\x7fb", "\x7f", "tilde~", "back`tick", "<tag attr='v'>", "a=b&c=d", "#hash", "/* c */ // d", "-- sql", "tab? no: space", "@at", "^caret", "pipe|pipe", "semi;colon", "q?mark", "!bang"])
    if k == 9:
        return text.printable(rng, 1, 25, weights=(6, 3, 1), exclude='"\\')
    return text.token(rng)


def gen_int(rng, lo=-2 ** 127, hi=2 ** 127 - 1):
    k = rng.below(10)
    cands = [0, 1, -1, lo, hi, lo + 1, hi - 1, 2 ** 63, -2 ** 63 - 1, 2 ** 64, 127, -128, 255, 256, 65535, -32768, 2 ** 31, -2 ** 31 - 1, 2 ** 53 + 1]
    if k < 5:
        v = rng.choice(cands)
    elif k < 8:
        v = rng.range(-1000, 1000)
    else:
        v = rng.range(0, 2 ** 126) * (1 if rng.chance(1, 2) else -1)
    return max(lo, min(hi, v))


def gen_f64(rng):
    k = rng.below(12)
    if k == 0:
        return rng.choice([0.0, -0.0])
    if k == 1:
        return float(rng.range(-1000, 1000))
    if k == 2:
        return rng.choice([1.0, -1.0]) * 10.0 ** rng.range(-300, 300)
    if k == 3:
        return rng.choice([5e-324, 2.2250738585072014e-308, 1.7976931348623157e308, -1.7976931348623157e308, 4.9e-320])
    if k == 4:
        return rng.choice([0.1 + 0.2, 1 / 3, 2 / 3, math.pi, math.e * 1e10, 123456789.12345678, 0.30000000000000004, 9007199254740993.0])
    if k == 5:
        return f32(rng.range(-10 ** 6, 10 ** 6) / 1000.0)
    if k == 6:
        return struct.unpack("<d", struct.pack("<Q", rng.u64()))[0] if True else 0.0
    return rng.range(-10 ** 9, 10 ** 9) / rng.choice([1, 10, 100, 1000, 7])


def finite(x):
    return x == x and x not in (float("inf"), float("-inf"))


def gen_list(rng, name):
    n = rng.choice([0, 1, 2, 3, 5, 64])
    if name == "ls":
        return [gen_str(rng) for _ in range(n)]
    if name == "lb":
        return [rng.chance(1, 2) for _ in range(n)]
    if name == "lf64":
        return [x for x in (gen_f64(rng) for _ in range(n)) if finite(x)]
    if name == "lf32":
        out = []
        for _ in range(n):
            x = gen_f64(rng)
            try:
                y = f32(x)
            except OverflowError:
                continue
            if finite(y):
                out.append(y)
        return out
    if name == "ln":
        return n
    lo, hi = INT_LISTS[name]
    return [gen_int(rng, lo, hi) for _ in range(n)]


def gen_node(rng, level, depth):
    """level: 0..3 (L0..L3); depth: how many more nesting levels to generate"""
    v = {}
    for name in ORDER:
        kind = KIND_OF[name]
        if kind == "obj" or kind == "arr":
            if level >= 3 or depth <= 0 or not rng.chance(1, 3):
                continue
            if kind == "obj":
                v[name] = gen_node(rng, level + 1, depth - 1)
            else:
                v[name] = [gen_node(rng, level + 1, depth - 1) for _ in range(rng.choice([0, 1, 2, 3]))]
            continue
        p = 3 if name in ("s", "b", "i", "f") else 8
        if not rng.chance(1, p) and not (level == 0 and rng.chance(1, 40)):
            continue
        if kind == "str":
            v[name] = gen_str(rng)
        elif kind == "bool":
            v[name] = rng.chance(1, 2)
        elif kind == "int":
            v[name] = gen_int(rng)
        elif kind == "f64":
            x = gen_f64(rng)
            if finite(x):
                v[name] = x
        else:
            v[name] = gen_list(rng, name)
    return v


def encode(v):
    t = [str(len(v))]
    for name in ORDER:
        if name not in v:
            continue
        kind, x = KIND_OF[name], v[name]
        t += [name, kind]
        if kind == "str":
            t.append(x)
        elif kind == "bool":
            t.append("true" if x else "false")
        elif kind == "int":
            t.append(str(x))
        elif kind == "f64":
            t.append("%016x" % struct.unpack("<Q", struct.pack("<d", x))[0])
        elif kind == "obj":
            t += encode(x)
        elif kind == "arr":
            t.append(str(len(x)))
            for e in x:
                t += encode(e)
        elif kind == "l_null":
            t.append(str(x))
        elif kind == "l_f32":
            t.append(str(len(x)))
            t += ["%08x" % struct.unpack("<I", struct.pack("<f", e))[0] for e in x]
        elif kind == "l_f64":
            t.append(str(len(x)))
            t += ["%016x" % struct.unpack("<Q", struct.pack("<d", e))[0] for e in x]
        elif kind == "l_bool":
            t.append(str(len(x)))
            t += ["true" if e else "false" for e in x]
        else:
            t.append(str(len(x)))
            t += [str(e) if not isinstance(e, str) else e for e in x]
    return t


def decode(toks, pos=0):
    n = int(toks[pos])
    pos += 1
    v = {}
    for _ in range(n):
        name, kind = toks[pos], toks[pos + 1]
        pos += 2
        if kind == "str":
            v[name] = toks[pos]
            pos += 1
        elif kind == "bool":
            v[name] = toks[pos] == "true"
            pos += 1
        elif kind == "int":
            v[name] = int(toks[pos])
            pos += 1
        elif kind == "f64":
            v[name] = struct.unpack("<d", struct.pack("<Q", int(toks[pos], 16)))[0]
            pos += 1
        elif kind == "obj":
            v[name], pos = decode(toks, pos)
        elif kind == "arr":
            m = int(toks[pos])
            pos += 1
            l = []
            for _ in range(m):
                e, pos = decode(toks, pos)
                l.append(e)
            v[name] = l
        elif kind == "l_null":
            v[name] = int(toks[pos])
            pos += 1
        else:
            m = int(toks[pos])
            pos += 1
            items = toks[pos:pos + m]
            pos += m
            if kind == "l_str":
                v[name] = list(items)
            elif kind == "l_bool":
                v[name] = [x == "true" for x in items]
            elif kind == "l_f32":
                v[name] = [struct.unpack("<f", struct.pack("<I", int(x, 16)))[0] for x in items]
            elif kind == "l_f64":
                v[name] = [struct.unpack("<d", struct.pack("<Q", int(x, 16)))[0] for x in items]
            else:
                v[name] = [int(x) for x in items]
    return v, pos


def same(a, b, kind):
    """value equality as the property means it (floats numerically)"""
    if kind in ("f64",):
        return a == b
    if kind in ("l_f64", "l_f32"):
        return len(a) == len(b) and all(x == y for x, y in zip(a, b))
    return a == b


def diff(a, b, path=""):
    """first difference between two node dicts: (path, kind, expected, got) or None"""
    for name in ORDER:
        ia, ib = name in a, name in b
        kind = KIND_OF[name]
        if ia != ib:
            return (path + name, kind, a.get(name, "<absent>"), b.get(name, "<absent>"))
        if not ia:
            continue
        if kind == "obj":
            d = diff(a[name], b[name], path + name + ".")
            if d:
                return d
        elif kind == "arr":
            if len(a[name]) != len(b[name]):
                return (path + name, kind, len(a[name]), len(b[name]))
            for j, (x, y) in enumerate(zip(a[name], b[name])):
                d = diff(x, y, "%s%s[%d]." % (path, name, j))
                if d:
                    return d
        elif not same(a[name], b[name], kind):
            return (path + name, kind, a[name], b[name])
    return None


def from_loaded(doc, level=0):
    """turn json.loads output into the node-dict shape (ints stay ints, floats floats)"""
    v = {}
    for name, x in doc.items():
        kind = KIND_OF.get(name)
        if kind is None:
            v[name] = x
        elif kind == "obj":
            v[name] = from_loaded(x, level + 1) if isinstance(x, dict) else x
        elif kind == "arr":
            v[name] = [from_loaded(e, level + 1) if isinstance(e, dict) else e for e in x] if isinstance(x, list) else x
        elif kind == "l_null":
            v[name] = len(x) if isinstance(x, list) and all(e is None for e in x) else x
        elif kind == "l_f32":
            v[name] = [f32(float(e)) if isinstance(e, (int, float)) and not isinstance(e, bool) and abs(e) < 3.5e38 else e for e in x] if isinstance(x, list) else x
        elif kind in ("l_f64",):
            v[name] = [float(e) if isinstance(e, int) and not isinstance(e, bool) else e for e in x] if isinstance(x, list) else x
        elif kind == "f64":
            v[name] = float(x) if isinstance(x, int) and not isinstance(x, bool) else x
        else:
            v[name] = x
    return v


def str_class(s):
    if s == "":
        return "empty"
    if s in ("true", "false", "null"):
        return "literal-lookalike"
    if any(ord(ch) > 127 for ch in s):
        return "non-ascii"
    if any(ch in s for ch in "{}[]"):
        # balanced and properly nested brackets do not confuse a bracket-counting reader (they round-trip on the pinned tree);
        # unbalanced ones do (known finding) - two mechanisms, two classes
        st = []
        ok = True
        for ch in s:
            if ch in "{[":
                st.append(ch)
            elif ch in "}]":
                if not st or st.pop() != {"}": "{", "]": "["}[ch]:
                    ok = False
                    break
        return "has-balanced-brackets" if ok and not st else "has-bracket-or-brace"
    for ch, nm in ((",", "comma"), (":", "colon")):
        if ch in s:
            return "has-" + nm
    if s.isdigit():
        return "digits"
    if " " in s:
        return "has-space"
    return "plain"


def int_class(x):
    if x < 0:
        return "negative"
    if x == 0:
        return "zero"
    if x > 2 ** 63 - 1:
        return "beyond-i64"
    return "positive"


def f64_class(x):
    if x == 0:
        return "zero"
    if x < 0:
        return "negative"
    sgn = ""
    r = repr(abs(x))
    if "e" in r:
        return sgn + "exponent-notation"
    if abs(x) < 1e-13:
        return sgn + "tiny"
    if x == int(x):
        return sgn + "integral"
    frac = r.split(".")[1] if "." in r else ""
    if len(frac) > 13:
        return sgn + "more-than-13-decimals"
    return sgn + "plain"


def value_class(kind, x):
    if kind == "str":
        return str_class(x)
    if kind == "int":
        return int_class(x)
    if kind == "f64":
        return f64_class(x)
    if kind == "bool":
        return "bool"
    if kind == "l_null":
        return "empty" if x == 0 else "nulls"
    if kind.startswith("l_"):
        if len(x) == 0:
            return "empty"
        ek = {"l_str": "str", "l_bool": "bool", "l_f32": "f64", "l_f64": "f64"}.get(kind, "int")
        cl = set(value_class(ek, e) for e in x)
        for k in ("non-ascii", "has-bracket-or-brace", "has-balanced-brackets", "negative", "empty", "has-comma", "has-colon", "literal-lookalike", "digits", "has-space"):
            if k in cl:
                return k
        nontriv = sorted(k for k in cl if k not in ("plain", "positive", "bool", "zero", "integral"))
        return (nontriv[0] if nontriv else sorted(cl)[0])
    if kind == "obj":
        return "object"
    if kind == "arr":
        return "empty" if len(x) == 0 else "objects"
    return "?"


TRIVIAL = {"str": "a", "int": 1, "f64": 1.5, "bool": True}


def is_trivial(kind, x):
    if kind in TRIVIAL:
        return x == TRIVIAL[kind]
    if kind == "l_null":
        return x == 1
    if kind.startswith("l_"):
        ek = {"l_str": "str", "l_bool": "bool", "l_f32": "f64", "l_f64": "f64"}.get(kind, "int")
        return len(x) == 1 and x[0] == TRIVIAL[ek]
    return False


def candidates(v):
    """single-step simplifications of a node dict (deep copies)"""
    import copy
    out = []
    for name in list(v):
        kind = KIND_OF[name]
        w = copy.deepcopy(v)
        del w[name]
        out.append(w)
        if kind == "obj":
            for sub in candidates(v[name]):
                w = copy.deepcopy(v)
                w[name] = sub
                out.append(w)
        elif kind == "arr":
            for j in range(len(v[name])):
                w = copy.deepcopy(v)
                del w[name][j]
                out.append(w)
                for sub in candidates(v[name][j]):
                    w = copy.deepcopy(v)
                    w[name][j] = sub
                    out.append(w)
        elif not is_trivial(kind, v[name]):
            w = copy.deepcopy(v)
            if kind in TRIVIAL:
                w[name] = TRIVIAL[kind]
                out.append(w)
            elif kind == "l_null":
                w[name] = 1
                out.append(w)
            else:
                ek = {"l_str": "str", "l_bool": "bool", "l_f32": "f64", "l_f64": "f64"}.get(kind, "int")
                if len(v[name]) > 1:
                    for j in range(len(v[name])):
                        w2 = copy.deepcopy(v)
                        del w2[name][j]
                        out.append(w2)
                elif len(v[name]) == 1:
                    w[name] = [TRIVIAL[ek]]
                    out.append(w)
    return out


def essential(v, path="", depth=0):
    """describe what is left in a shrunk value"""
    out = []
    for name in ORDER:
        if name not in v:
            continue
        kind = KIND_OF[name]
        if kind == "obj":
            sub = essential(v[name], path, depth + 1)
            out += sub if sub else ["nested-object:empty"]
        elif kind == "arr":
            if not v[name]:
                out.append("array-of-objects:empty" + ("@nested" if depth else ""))
            for e in v[name]:
                sub = essential(e, path, depth + 1)
                out += sub if sub else ["array-of-objects:empty-object"]
        elif is_trivial(kind, v[name]):
            out.append("%s:trivial" % kind)
        else:
            fam = re.sub(r"^l_[iu]\d+$", "l_int", kind)
            fam = re.sub(r"^l_f\d+$", "l_float", fam)
            vc = value_class(kind, v[name])
            if kind in ("str", "l_str") and vc in ("non-ascii", "has-bracket-or-brace"):
                fam = "string"   # one mechanism whether the string sits in a field, a list or a nested element
            out.append("%s:%s" % (fam, vc))
    return out


def evaluate(values, lane="rel", prefix="j"):
    """returns list of (klass, detail, text, obs)"""
    cases = [core.Case("%s%d" % (prefix, i), "json.roundtrip", encode(v)) for i, v in enumerate(values)]
    obs = core.run_cases(cases, lane=lane, poison="json")
    res = []
    for i, v in enumerate(values):
        o = obs.get(cases[i].id)
        if o is None or o.outcome == "missing":
            res.append(("missing", "", "", o, cases[i]))
            continue
        if o.outcome in ("panic", "died", "timeout"):
            from ..ctx import crash_sig
            res.append(("crash|" + crash_sig("C19", "parse(to_json(x))", o), o.summary(), "", o, cases[i]))
            continue
        if o.outcome != "ok":
            res.append(("harness-err", o.err, "", o, cases[i]))
            continue
        textj = o.s(0)
        # 1. independent parser: valid JSON with the same meaning
        try:
            doc = json.loads(textj)
            d = diff(v, from_loaded(doc))
            if d:
                res.append(("meaning-differs|" + d[1], d, textj, o, cases[i]))
                continue
        except (ValueError, RecursionError) as e:
            res.append(("invalid-json", str(e)[:80], textj, o, cases[i]))
            continue
        # 2. the library's own parser
        if o.s(1) != "parsed":
            from ..ctx import norm_msg
            res.append(("parse-error|" + norm_msg(o.s(2).split(":")[0])[:60], o.s(2), textj, o, cases[i]))
            continue
        toks = [f.decode("utf-8", "replace") for f in o.fields[2:]]
        try:
            back, _ = decode(toks)
        except (ValueError, IndexError) as e:
            res.append(("harness-err", "cannot decode flattened value: %s" % e, textj, o, cases[i]))
            continue
        d = diff(v, back)
        if d:
            res.append(("mismatch|" + d[1], d, textj, o, cases[i]))
            continue
        res.append(("ok", "", textj, o, cases[i]))
    return res


def isolate(v):
    """values keeping exactly one top-level field (and, for nested ones, one field inside)"""
    out = []
    for name in v:
        out.append({name: v[name]})
        kind = KIND_OF[name]
        if kind == "obj":
            out += [{name: w} for w in isolate(v[name])]
        elif kind == "arr":
            for e in v[name]:
                out.append({name: [e]})
                out += [{name: [w]} for w in isolate(e)]
    return out


def shrink(v, klass, lane, budget=40):
    cur = v
    for rnd in range(budget):
        cands = (isolate(cur) if rnd == 0 else []) + candidates(cur)
        if not cands:
            break
        cands = cands[:400]
        res = evaluate(cands, lane=lane, prefix="s")
        nxt = None
        # prefer the smallest candidate that still fails the same way
        best = None
        for cand, r in zip(cands, res):
            if not cand and v:
                continue   # the empty object is its own case; never shrink a non-empty failure into it
            if r[0] == klass:
                size = len(encode(cand))
                if best is None or size < best[0]:
                    best = (size, cand)
        if best is None:
            break
        cur = best[1]
    return cur


def run(c):
    c.rule = ("values of a four-level struct family (String, bool, i128, f64, nested object, array of objects, homogeneous arrays of String/bool/i8..i128/u8..u128/f32/f64/null) with every field "
              "present/absent, integers at every width boundary, floats (zero, negative, exponents, subnormal, 17 digits), strings of printable text without quotes/backslashes (braces, brackets, commas, "
              "colons, look-alikes, non-ASCII, astral, empty), arrays of length 0..64 (random) and 100..300 / ..2000 siblings at every nesting position (deterministic), depth 0..4; serialised, checked with Python's json, parsed back. Failing values are shrunk by delta debugging before classification. "
              "Class = (field kinds present, value classes, depth); non-trivial = at least one field.")
    rng = c.rng
    n = 8000 if c.quick else 200000
    values = []
    for i in range(n):
        depth = i % 5
        values.append(gen_node(rng, 0, depth))
    # wide values: hundreds of siblings at every nesting position (counts around powers of two)
    wide_ns = (100, 127, 128, 129, 255, 256, 257, 300) if c.quick else (100, 127, 128, 129, 255, 256, 257, 300, 511, 512, 513, 1000, 1024, 1025, 2000)
    for wn in wide_ns:
        elems = [{"i": k} if k % 3 else ({"s": "e%d" % k} if k % 2 else {}) for k in range(wn)]
        values.append({"a": list(elems)})                                   # list of objects at the top
        values.append({"o": {"a": list(elems)}})                            # ... inside a nested object
        values.append({"a": [{"a": list(elems)}, {"i": 1}]})                # ... inside an element of a list of objects
        values.append({"o": {"o": {"a": list(elems[: wn // 2])}, "a": list(elems[: wn // 2])}})
        values.append({"s": "x", "a": [{"o": {"i": k}} for k in range(wn)]})  # many nested objects in siblings
        for ln_ in ("ls", "lb", "li8", "li64", "lu128", "lf64", "ln"):
            if ln_ == "ln":
                lst = wn
            elif ln_ == "ls":
                lst = ["s%d" % k for k in range(wn)]
            elif ln_ == "lb":
                lst = [k % 2 == 0 for k in range(wn)]
            elif ln_ == "lf64":
                lst = [k / 4.0 for k in range(wn)]
            else:
                lo_, hi_ = INT_LISTS[ln_]
                lst = [max(lo_, min(hi_, (k - wn // 2) if lo_ < 0 else k)) for k in range(wn)]
            values.append({ln_: lst})
            values.append({"o": {ln_: lst}})
            values.append({"a": [{ln_: lst}, {}]})
    c.need("a collection of 128 or more siblings inside a nested value")
    c.seen("a collection of 128 or more siblings inside a nested value")
    for cat in ("negative integer", "extreme integer", "17-digit float", "non-ASCII string", "empty array", "64-element array", "depth 4", "every field kind present"):
        c.need(cat)
    kinds_seen = set()

    def depth_of(v):
        d = 0
        if "o" in v:
            d = max(d, 1 + depth_of(v["o"]))
        for e in v.get("a", []):
            d = max(d, 1 + depth_of(e))
        return d

    for v in values:
        for name, x in v.items():
            k = KIND_OF[name]
            kinds_seen.add(k)
            if k == "int" and x < 0:
                c.seen("negative integer")
            if k == "int" and abs(x) >= 2 ** 126:
                c.seen("extreme integer")
            if k == "f64" and len(repr(x).replace("-", "").replace(".", "").split("e")[0].lstrip("0")) >= 17:
                c.seen("17-digit float")
            if k == "str" and any(ord(ch) > 127 for ch in x):
                c.seen("non-ASCII string")
            if k.startswith("l_") and (x == 0 if k == "l_null" else len(x) == 0):
                c.seen("empty array")
            if k.startswith("l_") and (x == 64 if k == "l_null" else len(x) == 64):
                c.seen("64-element array")
        if depth_of(v) >= 3:
            c.seen("depth 4")
    if set(KIND_OF.values()) <= kinds_seen:
        c.seen("every field kind present")
    # float sweep in the executor: every stride-th f32 bit pattern (and the same value widened to f64) through the typed list
    # writers and readers, compared bit for bit; the offset depends on the seed, stride 1 (VERIF_FSWEEP_STRIDE=1) is exhaustive
    import subprocess, os
    from .. import build
    stride = int(os.environ.get("VERIF_FSWEEP_STRIDE", "1021" if c.quick else "7"))
    c.need("float sweep")
    out = ""
    sweeps = [(stride, "1")] if c.quick else [(stride, "1"), (1, "0")]   # thorough: ALL 2^32 f32 bit patterns through the f32 list functions
    for st_, f64flag in sweeps:
        try:
            p = subprocess.run([build.harness("rel"), "fsweep", str(st_), str(c.seed % st_), "16", "64", f64flag], stdout=subprocess.PIPE, stderr=subprocess.DEVNULL, timeout=7200)
            o1 = p.stdout.decode("utf-8", "replace")
        except subprocess.TimeoutExpired:
            o1 = ""
        m1 = re.search(r"FSWEEP values=(\d+) mismatches=(\d+)", o1)
        if not m1:
            c.inconc("float sweep (stride %d) did not finish" % st_)
        elif st_ == 1:
            c.ev(int(m1.group(1)))
            c.extra["float_sweep_f32_exhaustive"] = {"values": int(m1.group(1)), "exhaustive": True}
            out += "\n".join(l for l in o1.splitlines() if l.startswith("FMISMATCH")) + "\n"
        else:
            out += o1
    m = re.search(r"FSWEEP values=(\d+) mismatches=(\d+)", out)
    if not m:
        c.inconc("float sweep did not finish")
    else:
        c.ev(int(m.group(1)))
        c.count("float_sweep_values", int(m.group(1)))
        c.extra["float_sweep"] = {"stride": stride, "offset": c.seed % stride, "values": int(m.group(1)), "exhaustive": stride == 1}
        c.cls("float-sweep", stride)
        c.seen("float sweep")
        for ln in out.splitlines():
            if ln.startswith("FMISMATCH"):
                w = ln.split()
                kind, bits, textv, back = w[1], w[2], w[3], w[4]
                c.violation("C19:roundtrip:float-sweep:%s:%s" % (kind, "error" if back in ("Err", "PANIC") or back.startswith("len") else "value-differs"),
                            "%s value with bits %s (%s) written by the list serialiser reads back as %s" % (kind, bits, textv, back), {"kind": kind, "bits": bits, "text": textv, "read_back": back})
    # concurrent FIRST use of the serialiser / parser in fresh processes (ASCII values of every field kind)
    simple = [v for v in values[:4000] if v and all(not isinstance(x, str) or x.isascii() and not any(ch in x for ch in "{}[]") for x in v.values()) and "ls" not in v and "o" not in v and "a" not in v][:12]
    core.cold_race_check(c, "C19", [core.Case("cr%d" % i, "json.roundtrip", encode(v)) for i, v in enumerate(simple)], trials=30 if c.quick else 600)
    failures = {}
    for lane in ("rel", "chk"):
        res = evaluate(values, lane=lane)
        for v, (klass, detail, textj, o, cs) in zip(values, res):
            c.ev()
            if v:
                c.cls(tuple(sorted((KIND_OF[k], value_class(KIND_OF[k], x)) for k, x in v.items())), depth_of(v))
            c.count("outcome_" + klass)
            if klass == "ok":
                if len(c.samples) < 4 and len(v) > 3:
                    c.sample({"value": {k: (x if not isinstance(x, (dict, list)) else "...") for k, x in list(v.items())[:6]}, "json_prefix": textj[:160]})
                continue
            if klass == "missing":
                c.inconc("no observation")
                continue
            if klass == "harness-err":
                c.inconc("harness error: %s" % detail)
                continue
            key = (klass, lane)
            failures.setdefault(key, []).append((v, detail, textj, o, cs))
    # shrink + classify a bounded number of failures per class, spread over the run
    per_class = 3 if c.quick else 40
    for (klass, lane), lst in sorted(failures.items()):
        step = max(1, len(lst) // per_class)
        picked = lst[::step][:per_class]
        c.count("failures_%s_%s" % (klass, lane), len(lst))
        for v, detail, textj, o, cs in picked:
            small = shrink(v, klass, lane)
            ess = essential(small)
            # an essential feature = what is non-trivial in the minimal failing value (at most two, sorted)
            nontrivial = sorted(e for e in ess if not e.split(":")[1].startswith("trivial")) or sorted(ess)
            # a feature that names a string mechanism takes precedence: brackets / non-ASCII inside strings break the
            # delimiting of whatever containers surround them
            prio = [e for e in nontrivial if e.startswith("string:")]
            feat = prio[0] if prio else ("+".join(nontrivial[:2]) or "empty-object")
            rp = {"lane": lane, "value": json.loads(json.dumps(v, default=repr)), "shrunk_value": json.loads(json.dumps(small, default=repr)), "shrunk": True, "json_text": textj[:1500], "detail": repr(detail)[:300]}
            if klass.startswith("crash|"):
                sig = klass.split("|", 1)[1]
                c.violation(sig + ":feature=" + feat, "%s; minimal failing value has %s" % (o.summary()[:200], ess), rp)
            else:
                kind = {"parse-error": "roundtrip:parse-error", "mismatch": "roundtrip:value-differs", "invalid-json": "text:not-valid-json", "meaning-differs": "text:meaning-differs"}[klass.split("|")[0]]
                if feat.startswith("string:") and kind.startswith("roundtrip:"):
                    kind = "roundtrip:parse-error"   # the library's reader mis-delimits: whether it errors or returns other values is one mechanism
                c.violation("C19:%s:%s" % (kind, feat),
                            "%s: %s; minimal failing value has %s" % (klass, repr(detail)[:200], ess), rp)

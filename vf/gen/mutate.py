"""Structure-aware byte mutation of valid documents (C20, C04 thorough)."""

NASTY = [b"\x00", b"\xff", b"\xc3\x28", b"\xe2\x82", b"\xf0\x9f\x98\x80", "é".encode(), "Ж".encode(), "中".encode(), b"\xe2\x80\xa8", b"\r", b"\n", b"\r\n", b"\t", b" "]
DELIMS = [b"{", b"}", b"[", b"]", b",", b":", b'"', b"'", b"=", b"&", b";", b"-", b"--", b"/", b"\\", b"?", b"#", b"%", b".", b"+", b"e", b"E", b"\r\n", b"\n", b": ", b"\r\n\r\n"]
NUMS = [b"", b"-", b"-1", b"0", b"00", b"1e400", b"-0", b"1.", b".5", b"1.5.5", b"--1", b"1e", b"1e-", b"NaN", b"inf", b"9" * 40, b"-" + b"9" * 40,
        b"18446744073709551615", b"18446744073709551616", b"340282366920938463463374607431768211455", b"340282366920938463463374607431768211456", b"170141183460469231731687303715884105728",
        b"255", b"256", b"-129", b"65536", b"4294967296", b"2147483648", b"9223372036854775808", b"0x10", b"1 2", b"1_000", b"+1", b"true", b"null"]


def truncations(doc, cap=None):
    n = len(doc)
    idx = range(n) if cap is None or n <= cap else sorted(set(int(i * n / cap) for i in range(cap)))
    return [("truncate", doc[:i]) for i in idx]


def mutate(doc, rng):
    """one random mutation; returns (kind, bytes)"""
    n = len(doc)
    k = rng.below(14)
    pos = rng.below(n + 1)
    if k == 0 and n:
        i = rng.below(n)
        return "byteflip", doc[:i] + bytes([doc[i] ^ (1 << rng.below(8))]) + doc[i + 1:]
    if k == 1:
        return "insert-nasty", doc[:pos] + rng.choice(NASTY) + doc[pos:]
    if k == 2 and n:
        i = rng.below(n)
        return "replace-nasty", doc[:i] + rng.choice(NASTY) + doc[i + 1:]
    if k == 3:
        d = rng.choice(DELIMS)
        return "insert-delim", doc[:pos] + d * rng.choice([1, 1, 2, 3, 50]) + doc[pos:]
    if k == 4:
        # delete one occurrence of a delimiter
        d = rng.choice(DELIMS)
        occ = [i for i in range(n) if doc.startswith(d, i)]
        if occ:
            i = rng.choice(occ)
            return "delete-delim", doc[:i] + doc[i + len(d):]
        return "delete-byte", doc[:pos - 1] + doc[pos:] if pos else doc
    if k == 5:
        d = rng.choice(DELIMS)
        occ = [i for i in range(n) if doc.startswith(d, i)]
        if occ:
            i = rng.choice(occ)
            return "dup-delim", doc[:i] + d + doc[i:]
        return "dup-all", doc + doc
    if k == 6:
        # numeric field -> junk / extreme
        import re
        m = list(re.finditer(rb"-?\d+(\.\d+)?", doc))
        if m:
            x = rng.choice(m)
            return "numeric", doc[:x.start()] + rng.choice(NUMS) + doc[x.end():]
        return "append-num", doc + rng.choice(NUMS)
    if k == 7:
        a, b = sorted((rng.below(n + 1), rng.below(n + 1)))
        return "delete-span", doc[:a] + doc[b:]
    if k == 8:
        a, b = sorted((rng.below(n + 1), rng.below(n + 1)))
        return "dup-span", doc[:b] + doc[a:b] * rng.choice([1, 2, 20]) + doc[b:]
    if k == 9:
        return "truncate", doc[:pos]
    if k == 10:
        return "tail-cut", doc[pos:]
    if k == 11:
        return "long-line", doc[:pos] + rng.choice([b"a", b" ", b"-", b"=", b"\x00", "é".encode()]) * rng.choice([1000, 1000, 30000]) + doc[pos:]
    if k == 12:
        a, b = sorted((rng.below(n + 1), rng.below(n + 1)))
        return "random-span", doc[:a] + rng.bytes(b - a) + doc[b:]
    return "case-swap", doc.swapcase()


def numeric_cross(doc, cap=24):
    """every numeric field of the document replaced by every extreme value (deterministic, no random draw)"""
    import re
    out = []
    for x in list(re.finditer(rb"-?\d+(\.\d+)?", doc))[:cap]:
        for v in NUMS:
            out.append(("numeric-extreme", doc[:x.start()] + v + doc[x.end():]))
    return out


def nesting(open_b, close_b, depth, inner=b""):
    return open_b * depth + inner + close_b * depth


def repetitions(doc, sizes=(9000, 60000), seps=(b",", b"&", b";", b"/")):
    """'repetition bombs': one structural unit of the document (a line, the record between two occurrences of the first
    line, an element between separators, the whole document) repeated until the result is about `size` bytes long.
    Deterministic. Aimed at recursion / stack depth / quadratic work proportional to the number of units."""
    out = []
    lines = doc.splitlines(keepends=True)
    seen = set()
    for size in sizes:
        for i, ln in enumerate(lines[:10]):
            if (ln, size) in seen or not ln:
                continue
            seen.add((ln, size))
            n = max(2, size // len(ln))
            out.append(("repeat-line:%d" % size, b"".join(lines[:i]) + ln * n + b"".join(lines[i + 1:])))
        if len(lines) > 2:
            # the record that starts with the first line and ends before the next line that begins the same way
            key = lines[0].rstrip(b"\r\n")
            j = next((k for k in range(1, len(lines)) if key and lines[k].startswith(key)), None)
            if j and j > 1:
                rec = b"".join(lines[:j])
                n = max(2, size // len(rec))
                out.append(("repeat-record:%d" % size, rec * n + b"".join(lines[j:])))
                # the smallest record of the same shape: first line, one short line, blank line, blank line
                nl = b"\r\n" if lines[0].endswith(b"\r\n") else b"\n"
                small = lines[0] + b"A: b" + nl + nl + nl
                out.append(("repeat-min-record:%d" % size, small * max(2, size // len(small)) + b"".join(lines[j:])))
                tiny = lines[0].rstrip(b"\r\n") + b"\n" + b"A: b\n\n\n"
                out.append(("repeat-min-record-lf:%d" % size, tiny * max(2, size // len(tiny)) + b"".join(lines[j:])))
        for sep in seps:
            parts = doc.split(sep)
            if 1 < len(parts) < 200:
                k = len(parts) // 2
                el = parts[k] if parts[k] else b"x"
                n = max(2, size // (len(el) + len(sep)))
                out.append(("repeat-element:%d" % size, sep.join(parts[:k] + [el] * n + parts[k:])))
        if doc:
            out.append(("repeat-document:%d" % size, doc * max(2, size // len(doc))))
    return out


# characters whose UTF-8 length changes under to_lowercase / to_uppercase, or that equal an ASCII letter under case
# folding (offsets computed on a case-mapped copy do not fit the original), plus a few other classics
SPECIAL_TOKENS = ["İ", "Ⱥ", "Ⱦ", "K", "Ω", "ẞ", "ß", "ŉ", "ﬁ", "ǰ", "ΐ", "\U00010400", "ı", "ſ", "‍", "﻿", "­", "́"]


def special_inserts(doc, max_len=120):
    """one special token inserted at every position of a short document and of its truncations behind each delimiter
    character (= ; : , quote): deterministic; pairs 'odd character somewhere' with 'value cut short'"""
    out = []
    if not doc or len(doc) > max_len:
        return out
    try:
        text_ = doc.decode("utf-8")
    except UnicodeDecodeError:
        return out
    bases = [text_] + [text_[:i + 1] for i, ch in enumerate(text_) if ch in "=;:,\"'" and i + 1 < len(text_)]
    seen = set()
    for bi, base in enumerate(bases[:10]):
        toks = SPECIAL_TOKENS if bi == 0 else SPECIAL_TOKENS[:6]
        for tok in toks:
            for pos in range(len(base) + 1):
                m = base[:pos] + tok + base[pos:]
                if m not in seen:
                    seen.add(m)
                    out.append(("special-insert" if bi == 0 else "special-insert+truncate", m.encode("utf-8")))
    return out

"""TreeGen: document roots inside base/outer2/outer1/root with marked files, secrets outside, symlinks."""
import os, shutil, hashlib
from .. import core

EXTS = ["html", "htm", "css", "js", "mjs", "txt", "json", "xml", "png", "jpg", "jpeg", "gif", "svg", "ico", "pdf",
        "zip", "mp3", "mp4", "webm", "woff", "woff2", "csv", "bin", "wav", "ttf", "tar", "gz"]
# core table of uncontroversial registrations (written here, not derived from the repository's table)
CORE_TYPES = {
    "html": "text/html", "htm": "text/html", "css": "text/css", "js": "text/javascript", "mjs": "text/javascript",
    "txt": "text/plain", "json": "application/json", "xml": ("application/xml", "text/xml"), "png": "image/png", "jpg": "image/jpeg",
    "jpeg": "image/jpeg", "gif": "image/gif", "svg": "image/svg+xml", "ico": ("image/vnd.microsoft.icon", "image/x-icon"),
    "pdf": "application/pdf", "zip": "application/zip", "mp3": "audio/mpeg", "mp4": "video/mp4", "webm": "video/webm",
    "woff": "font/woff", "woff2": "font/woff2", "csv": "text/csv",
}
STEMS = ["a", "data", "page", "report.v2", "archive.tar", "x.y.z", "readme", "файл", "café", "文件", "UPPER", "with-dash", "under_score", "n0"]
DIRS = ["sub", "docs", "assets", "deep", "d.ir", "кат", "img", "v1"]
SIZES_Q = [0, 1, 2, 40, 300, 4095, 4096, 4097, 8191, 8192, 8193, 9999, 10000, 10001, 65535, 65536, 65537]
SIZES_T = SIZES_Q + [1 << 20]


def marker(tag, *parts):
    return (tag + hashlib.sha256("/".join(str(p) for p in parts).encode()).hexdigest()[:20]).encode()


def content(rng, size, mk, kind=None):
    """File body of exactly `size` bytes embedding marker `mk` when it fits."""
    kind = kind or rng.choice(["text", "allbytes", "binary", "text"])
    if size < len(mk) + 2:
        return rng.bytes(size) if kind == "binary" else (b"xyz" * size)[:size]
    if kind == "text":
        filler = (b"The quick brown fox jumps over the lazy dog. \r\n-- line --\n" * (size // 50 + 1))
    elif kind == "allbytes":
        filler = bytes(range(256)) * (size // 256 + 1)
    else:
        filler = rng.bytes(size)
    body = mk + b"\n" + filler
    return body[:size]


class Tree:
    def __init__(self):
        self.base = self.root = None
        self.files = {}      # url path ("/a/b.txt") -> bytes   (regular files inside the root)
        self.markers = {}    # marker bytes -> url path
        self.dirs = set()    # url paths of directories ("/sub")
        self.links = {}      # url path -> link target as stored
        self.secrets = {}    # abs path -> marker
        self.allowed_outside = {}  # marker -> abs path (targets of owner-placed links leading outside)
        self.outside_files = {}    # abs path -> bytes (every file outside the root)
        self.depth = 0

    def abs(self, url_path):
        return self.root + url_path

    def cleanup(self):
        if self.base and os.path.isdir(self.base):
            shutil.rmtree(self.base, ignore_errors=True)

    def spec(self):
        return {"root": self.root, "files": {k: len(v) for k, v in sorted(self.files.items())}, "dirs": sorted(self.dirs),
                "links": dict(sorted(self.links.items())), "secrets": sorted(self.secrets)}

    # -- building blocks
    def add_file(self, url_path, data):
        p = self.abs(url_path)
        os.makedirs(os.path.dirname(p), exist_ok=True)
        with open(p, "wb") as f:
            f.write(data)
        self.files[url_path] = data

    def add_dir(self, url_path):
        os.makedirs(self.abs(url_path), exist_ok=True)
        self.dirs.add(url_path)

    def add_link(self, url_path, target):
        p = self.abs(url_path)
        os.makedirs(os.path.dirname(p), exist_ok=True)
        os.symlink(target, p)
        self.links[url_path] = target

    def add_outside(self, abs_path, data, secret=True, mk=None):
        os.makedirs(os.path.dirname(abs_path), exist_ok=True)
        with open(abs_path, "wb") as f:
            f.write(data)
        self.outside_files[abs_path] = data
        if secret and mk:
            self.secrets[abs_path] = mk


def generate(rng, depth=2, n_files=14, symlinks=True, outside_links=False, big=False, root_index=None, plant_secrets=True,
             sizes=None, tag="t", root_404=None, root_name=None):
    t = Tree()
    t.base = core.scratch("tree-")
    # where the served directory lives is the owner's business: its name may contain URL delimiters and non-ASCII text
    # (blank, quotes, '&', '|', ';' are refused by the file-ext dependency: C02 has a phase of its own for them, a known finding)
    rootname = rng.choice(["root", "root", "root", "release#7", "r?t", "r\u00f6ot", "root.d", "C#", "100%", "a=b", "-root", "(x)", "x,y", "[r]", "~r"]) if root_name is None else root_name
    t.root = os.path.join(t.base, "outer2", "outer1", rootname)
    os.makedirs(t.root)
    t.depth = depth
    sizes = sizes or (SIZES_T if big else SIZES_Q)
    # directories
    dirs = [""]
    cur = ""
    for d in range(depth):
        cur = cur + "/" + rng.choice(DIRS) + (str(d) if rng.chance(1, 2) else "")
        if cur not in dirs:
            dirs.append(cur)
            t.add_dir(cur)
    for _ in range(rng.range(0, 2)):
        parent = rng.choice(dirs)
        d = parent + "/" + rng.choice(DIRS) + "x"
        if d not in dirs and (d + ".html") not in t.files:
            dirs.append(d)
            t.add_dir(d)
    # files
    used = set()
    size_pool = list(sizes)
    rng.shuffle(size_pool)
    for i in range(n_files):
        d = rng.choice(dirs)
        stem = rng.choice(STEMS)
        r = rng.below(10)
        if r == 0:
            name = stem                      # no extension
        elif r == 1:
            name = stem + "." + rng.choice(EXTS) + "." + rng.choice(EXTS)
        else:
            name = stem + "." + EXTS[(i + rng.below(3)) % len(EXTS)]
        up = d + "/" + name
        if up in used or up in t.dirs or (up[:-5] in t.dirs if up.endswith(".html") else False):
            continue
        used.add(up)
        size = size_pool[i % len(size_pool)]
        mk = marker("MK", tag, up)
        t.add_file(up, content(rng, size, mk))
        t.markers[mk] = up
    # an extension seen in two places with different content (metamorphic media-type check)
    for ext in rng.sample(EXTS, 3):
        for d in rng.sample(dirs, min(2, len(dirs))):
            up = d + "/same" + str(rng.below(100)) + "." + ext
            if up not in used:
                used.add(up)
                mk = marker("MK", tag, up)
                t.add_file(up, content(rng, rng.choice([10, 64, 500]), mk))
                t.markers[mk] = up
    # extensions spelled in upper / mixed case next to the lower-case spelling (what "its extension" means for them is
    # not judged, but they must not change what the lower-case files get)
    for ext in rng.sample(sorted(CORE_TYPES), 2):
        for spell in (ext.upper(), ext.capitalize()):
            up = rng.choice(dirs) + "/Case" + str(rng.below(100)) + "." + spell
            if up not in used:
                used.add(up)
                mk = marker("MK", tag, up)
                t.add_file(up, content(rng, rng.choice([10, 64, 500]), mk))
                t.markers[mk] = up
        up = rng.choice(dirs) + "/case" + str(rng.below(100)) + "." + ext
        if up not in used:
            used.add(up)
            mk = marker("MK", tag, up)
            t.add_file(up, content(rng, 80, mk))
            t.markers[mk] = up
    # directory indexes and .html fallbacks
    for d in dirs[1:]:
        if rng.chance(2, 3):
            up = d + "/index.html"
            mk = marker("MK", tag, up)
            t.add_file(up, content(rng, rng.choice([30, 200, 9000]), mk, "text"))
            t.markers[mk] = up
    for _ in range(2):
        d = rng.choice(dirs)
        up = d + "/" + rng.choice(["about", "contact", "p.q"]) + ".html"
        if up not in used and up[:-5] not in t.dirs and up[:-5] not in t.files:
            used.add(up)
            mk = marker("MK", tag, up)
            t.add_file(up, content(rng, 120, mk, "text"))
            t.markers[mk] = up
    if root_index is None:
        root_index = rng.chance(1, 2)
    if root_index:
        mk = marker("MK", tag, "/index.html")
        t.add_file("/index.html", content(rng, 150, mk, "text"))
        t.markers[mk] = "/index.html"
    if root_404 is None:
        root_404 = rng.chance(1, 2)
    if root_404:
        mk = marker("MK", tag, "/404.html")
        t.add_file("/404.html", content(rng, 90, mk, "text"))
        t.markers[mk] = "/404.html"
    # an empty file and a file larger than the request buffer are always present
    if not any(len(v) == 0 for v in t.files.values()):
        t.add_file("/empty.txt", b"")
    if not any(len(v) > 10000 for v in t.files.values()):
        mk = marker("MK", tag, "/big.bin")
        t.add_file("/big.bin", content(rng, 20011, mk, "allbytes"))
        t.markers[mk] = "/big.bin"
    # secrets at every ancestor level outside the root
    if plant_secrets:
        o1 = os.path.dirname(t.root)
        o2 = os.path.dirname(o1)
        # ... also under the names the server opens on its own initiative (error page, index page, built-in assets, its configuration)
        names = ["secret.txt", "secret.html", "secret", "index.html", "404.html", "style.css", "script.js", "favicon.svg", "rws.config.toml"] + [os.path.basename(p) for p in rng.sample(sorted(t.files), min(3, len(t.files)))]
        for lvl, d in (("o1", o1), ("o2", o2), ("base", t.base)):
            for n in dict.fromkeys(names):
                mk = marker("SECRET", tag, lvl, n)
                t.add_outside(os.path.join(d, n), mk + b" confidential " + mk + b"\n" + b"s" * 40, True, mk)
        # a sibling directory of the root, and a directory whose name extends the root's name
        for sib in ("sibling", "root2", "rootsecret"):
            mk = marker("SECRET", tag, "sib", sib)
            t.add_outside(os.path.join(o1, sib, "secret.txt"), mk + b" sibling secret\n" + b"s" * 40, True, mk)
    # symlinks inside the root
    if symlinks and t.files:
        regular = sorted(k for k in t.files if len(t.files[k]) > 30)
        if regular:
            tgt = rng.choice(regular)
            ext = tgt.rsplit(".", 1)[-1] if "." in os.path.basename(tgt) else "txt"
            t.add_link("/link-abs." + ext, t.abs(tgt))                                  # absolute target
            same_dir = [k for k in regular if os.path.dirname(k) == ""]
            if same_dir:
                s = rng.choice(same_dir)
                e2 = s.rsplit(".", 1)[-1] if "." in os.path.basename(s) else "txt"
                t.add_link("/link-rel." + e2, os.path.basename(s))                      # relative, same directory
                t.add_link("/link-dot." + e2, "./" + os.path.basename(s))               # ./x
                t.add_link("/link-chain." + e2, "link-rel." + e2)                        # chain of two
            deep = [k for k in regular if k.count("/") >= 2]
            if deep:
                s = rng.choice(deep)
                e3 = s.rsplit(".", 1)[-1] if "." in os.path.basename(s) else "txt"
                t.add_link("/link-down." + e3, s[1:])                                    # relative into a subdirectory
                d = os.path.dirname(s)
                rootfile = sorted(k for k in regular if os.path.dirname(k) == "")
                if rootfile:
                    up = "../" * d.count("/")
                    t.add_link(d + "/link-up.txt", up + os.path.basename(rootfile[0]))   # ../x
        if len(dirs) > 1:
            t.add_link("/dirlink", dirs[1][1:])                                          # symlink to a directory
    # siblings that build tools and editors leave next to a file (pre-compressed copies, backups, source maps): other files
    sib_src = [k for k in sorted(t.files) if k.count("/") <= 2 and "." in os.path.basename(k)][:40]
    for k, up in enumerate(rng.sample(sib_src, min(3, len(sib_src)))):
        for suffix in ((".gz", ".br"), (".bak", "~"), (".map", ".orig"))[k % 3]:
            sp = up + suffix
            if sp not in t.files:
                mk = marker("MK", tag, sp)
                t.add_file(sp, content(rng, rng.choice([20, 64, 200]), mk, "binary" if suffix in (".gz", ".br") else "text"))
                t.markers[mk] = sp
    # the served directory's own absolute path once more below it (a backup, a mis-aimed rsync): string surgery on paths that
    # strips or searches for the root "wherever it occurs" goes wrong here; plus a directory named like the root itself
    nested = t.root            # url path "/<abs root>/..." inside the root
    twin = "/nested-twin.txt"
    mk = marker("MK", tag, twin)
    t.add_file(twin, content(rng, 70, mk, "text"))
    t.markers[mk] = twin
    if not any(ch in t.root for ch in "#?%"):   # every file of the tree has to be addressable by a raw request target
        for name in (twin, "/only-nested.txt", "/only-nested.html"):
            up = nested + name
            mk = marker("MK", tag, up)
            t.add_file(up, content(rng, 90, mk, "text"))
            t.markers[mk] = up
        d = t.root
        while d != "/" and len(d) > 1:
            t.dirs.add(d)
            d = os.path.dirname(d)
    if not any(ch in os.path.basename(t.root) for ch in "#?%"):
        # (a namesake with URL delimiters in its name could not be addressed by a raw request target: the campaigns pick
        # "some servable file" from t.files and must be able to request it)
        up = "/" + os.path.basename(t.root) + "/in-namesake.txt"
        mk = marker("MK", tag, up)
        t.add_file(up, content(rng, 50, mk, "text"))
        t.markers[mk] = up
        t.dirs.add("/" + os.path.basename(t.root))
    # file metadata nobody creates on purpose but archives, backups and clock mishaps do: modification times before 1970,
    # at the epoch, on a 1st of January (zip's 1980-01-01), at the 32-bit limits, far in the future
    MTIMES = [-86400 * 200, -1, 0, 1, 315532800, 946684800, 1704067200, 1735689600, 2147483647, 2147483648, 4102444800, 4294967296, 253402300799]
    targets = sorted(t.files)
    for k, up in enumerate(rng.sample(targets, min(len(targets), 8))):
        mt = MTIMES[(k + rng.below(len(MTIMES))) % len(MTIMES)]
        try:
            os.utime(t.abs(up), (mt, mt))
        except (OSError, OverflowError):
            pass
    for k, d in enumerate(sorted(t.dirs)[:3]):
        mt = MTIMES[(2 * k + rng.below(len(MTIMES))) % len(MTIMES)]
        try:
            os.utime(t.abs(d), (mt, mt))
        except (OSError, OverflowError):
            pass
    if outside_links:
        # owner-placed links leading outside the root: their targets are explicitly allowed
        o1 = os.path.dirname(t.root)
        mk = marker("ALLOWED", tag, "shared.txt")
        p = os.path.join(o1, "shared", "shared.txt")
        t.add_outside(p, mk + b" shared on purpose\n" + b"a" * 40, False)
        t.allowed_outside[mk] = p
        t.add_link("/shared-link.txt", p)
        # a neighbour of the allowed target stays secret
        mk2 = marker("SECRET", tag, "shared-neighbour")
        t.add_outside(os.path.join(o1, "shared", "neighbour.txt"), mk2 + b" not shared\n" + b"s" * 40, True, mk2)
        mk3 = marker("ALLOWED", tag, "shareddir")
        p3 = os.path.join(o1, "shareddir", "inner.txt")
        t.add_outside(p3, mk3 + b" shared dir file\n" + b"a" * 40, False)
        t.allowed_outside[mk3] = p3
        t.add_link("/shared-dir", os.path.join(o1, "shareddir"))
    return t

"""ReqGen: grammar-based HTTP request builder and mutators (C04, C05, C06, C10, C13)."""
from .. import core

METHODS = ["GET", "HEAD", "POST", "PUT", "DELETE", "CONNECT", "OPTIONS", "TRACE", "PATCH"]
VERSIONS = ["HTTP/0.9", "HTTP/1.0", "HTTP/1.1", "HTTP/2.0"]
BUF = 10000


class Req:
    def __init__(self, method="GET", target="/", version="HTTP/1.1", headers=None, body=b"", route="static"):
        self.method, self.target, self.version = method, target, version
        self.headers = list(headers if headers is not None else [("Host", "localhost")])
        self.body = body
        self.route = route

    def copy(self):
        return Req(self.method, self.target, self.version, list(self.headers), self.body, self.route)

    def bytes(self):
        t = self.target if isinstance(self.target, bytes) else self.target.encode("utf-8")
        out = self.method.encode() + b" " + t + b" " + self.version.encode() + b"\r\n"
        for k, v in self.headers:
            kb = k if isinstance(k, bytes) else k.encode("utf-8")
            vb = v if isinstance(v, bytes) else v.encode("utf-8")
            out += kb + b": " + vb + b"\r\n"
        return out + b"\r\n" + self.body

    def describe(self):
        return "%s %s (%s, %d headers, %d body bytes)" % (self.method, self.target if isinstance(self.target, str) else self.target.decode("latin-1"), self.route, len(self.headers), len(self.body))


def multipart_body(fields, boundary="----WebKitFormBoundaryAbC123xyz", files=()):
    out = b""
    for name, value in fields:
        v = value if isinstance(value, bytes) else value.encode()
        out += b"--" + boundary.encode() + b"\r\n" + b'Content-Disposition: form-data; name="' + name.encode() + b'"\r\n\r\n' + v + b"\r\n"
    for name, filename, ctype, data in files:
        out += (b"--" + boundary.encode() + b"\r\n" + b'Content-Disposition: form-data; name="' + name.encode() + b'"; filename="' + filename.encode() + b'"\r\n'
                + b"Content-Type: " + ctype.encode() + b"\r\n\r\n" + data + b"\r\n")
    return out + b"--" + boundary.encode() + b"--\r\n"


def valid_requests(tree, rng, extra_origin=True):
    """One valid request (at least) per route of the application."""
    reqs = []
    files = sorted(tree.files)
    small = [f for f in files if 30 < len(tree.files[f]) < 5000] or files
    H = [("Host", "localhost:7878"), ("User-Agent", "vf/1"), ("Accept", "*/*")]
    for f in rng.sample(small, min(3, len(small))):
        reqs.append(Req("GET", f, headers=H, route="static"))
    f = rng.choice(small)
    reqs.append(Req("GET", f + "?x=1&y=2#frag", headers=H, route="static-query"))
    reqs.append(Req("GET", f, headers=H + [("Range", "bytes=0-9")], route="static-range"))
    reqs.append(Req("GET", f, headers=H + [("Range", "bytes=0-4, 6-9")], route="static-multirange"))
    reqs.append(Req("HEAD", f, headers=H, route="static-head"))
    reqs.append(Req("OPTIONS", f, headers=H + [("Origin", "https://o.example"), ("Access-Control-Request-Method", "PUT"), ("Access-Control-Request-Headers", "x-a, x-b")], route="static-preflight"))
    for d in sorted(tree.dirs)[:2]:
        reqs.append(Req("GET", d + "/", headers=H, route="dir-slash"))
        reqs.append(Req("GET", d, headers=H, route="dir"))
    htmls = [x for x in files if x.endswith(".html") and not x.endswith("/index.html") and x.count("/") >= 1]
    if htmls:
        reqs.append(Req("GET", htmls[0][:-5], headers=H, route="html-fallback"))
    reqs.append(Req("GET", "/", headers=H, route="index"))
    reqs.append(Req("GET", "/style.css", headers=H, route="builtin-style"))
    reqs.append(Req("GET", "/script.js", headers=H, route="builtin-script"))
    reqs.append(Req("GET", "/favicon.svg", headers=H, route="builtin-favicon"))
    reqs.append(Req("GET", "/no/such/file.txt", headers=H, route="notfound"))
    reqs.append(Req("GET", "/form-get-method?name=alice&city=Lviv", headers=H, route="form-get"))
    reqs.append(Req("POST", "/form-url-encoded-enctype-post-method", headers=H + [("Content-Type", "application/x-www-form-urlencoded"), ("Content-Length", "21")], body=b"name=bob&city=Kharkiv", route="form-urlencoded"))
    mb = multipart_body([("name", "carol"), ("note", "hello world")])
    reqs.append(Req("POST", "/form-multipart-enctype-post-method", headers=H + [("Content-Type", "multipart/form-data; boundary=----WebKitFormBoundaryAbC123xyz"), ("Content-Length", str(len(mb)))], body=mb, route="form-multipart"))
    reqs.append(Req("POST", "/file-upload/initiate?name=a.bin&lastModified=1700000000&size=123", headers=H, route="file-upload"))
    mb2 = multipart_body([("empty", ""), ("one", "x"), ("name", "dave")])
    reqs.append(Req("POST", "/form-multipart-enctype-post-method", headers=H + [("Content-Type", "multipart/form-data; boundary=----WebKitFormBoundaryAbC123xyz"), ("Content-Length", str(len(mb2)))], body=mb2, route="form-multipart-empty-value"))
    reqs.append(Req("POST", "/form-url-encoded-enctype-post-method", headers=H + [("Content-Type", "application/x-www-form-urlencoded"), ("Content-Length", "9")], body=b"a=&b=&c=1", route="form-urlencoded-empty-value"))
    reqs.append(Req("GET", "/form-get-method?a=&b", headers=H, route="form-get-empty-value"))
    if extra_origin:
        reqs.append(Req("GET", f, headers=H + [("Origin", "https://o.example")], route="static-origin"))
    return reqs


JUNK = [b"", b"\x00", b"\xff\xfe", b"A" * 300, b"%", b"%zz", b"\r", b"\n", b"\r\n", b" ", b"\t", b":", b": ", b"\xc3\x28", b"\xf0\x9f\x98\x80",
        b"-1", b"0", b"18446744073709551615", b"18446744073709551616", b"9" * 40, b"1e9", b"0x10", b"a", b"NaN", b"/", b"//", b"..", b"?", b"#", b"=", b"&", b";", b"\"", b"'", b"\xe2\x80\xa8"]


# long values with a multi-byte character straddling a typical truncation limit (16 .. 4096 bytes)
for _L in (16, 32, 64, 80, 100, 128, 200, 255, 256, 500, 512, 1000, 1024, 2048, 4096):
    for _d in (1, 2):
        JUNK.append(b"a" * (_L - _d) + "\u00e9\u20ac\U0001F600".encode("utf-8") * 6)
JUNK += [b"x" * 255 + "\u00e9".encode() * 50, ("\u00e9" * 400).encode(), ("\U0001F600" * 300).encode(), b"a" * 8000]


def mutations(req, rng, n):
    """n single-position mutations of a valid request; yields (kind, element, raw bytes)."""
    out = []
    for _ in range(n):
        r = req.copy()
        el = rng.choice(["method", "target", "version", "hname", "hsep", "hvalue", "blank", "body", "line", "numeric", "truncate", "dup", "delhdr"])
        kind = el
        if el == "method":
            r.method = rng.choice(["", "get", "Get", "GETT", "G", "FOO", "GET\x00", "GÉT", " GET", "POST", "HEAD", "OPTIONS", "PUT", "DELETE", "TRACE", "CONNECT", "PATCH"])
            raw = r.bytes()
        elif el == "target":
            t = r.target if isinstance(r.target, str) else "/"
            r.target = rng.choice([b"", b"x", b":x", b"*", b"http://h/x", b"//host/x", b"/%", b"/%zz", b"/a b", b"/\xff", b"/" + b"a" * 9000, b"?", b"#", b"/?", b"/#", b"/?a", b"/?=", b"/?&", b"/?a=%", b"//", b"/./", b"/../", b"\\", b"/\x00", t.encode() + b"?" + rng.choice(JUNK), t.encode() + b"#" + rng.choice(JUNK), t.encode() + rng.choice(JUNK), b"/" + rng.choice(JUNK), b"http://[::1", b"?x=http://h/p", b"?a:b/c", b"#a:b/c", b"?next=//h:x/", b"#@h:1/", b"/?u=http://h:80/p#f:g/h", b"?:/", b"#:/", b"/a?b=c?d=e", b"/a#b#c", b"/a;b", b"@", b"/@", b"h:80", b"[", b"/[", b"/]"])
            raw = r.bytes()
        elif el == "version":
            r.version = rng.choice(["", "HTTP/1.2", "HTTP/3", "http/1.1", "HTTP", "HTTP/1.1 x", "HTTP/1.1\x00", "HTTPS/1.1", "1.1", "HTTP/1.1 ", " HTTP/1.1"])
            raw = r.bytes()
        elif el in ("hname", "hsep", "hvalue", "delhdr", "dup") and r.headers:
            i = rng.below(len(r.headers))
            k, v = r.headers[i]
            if el == "hname":
                r.headers[i] = (rng.choice([b"", b" ", b"X Y", b"\x00", b"\xff", b":", b"Content-Length", b"content-length", b"Range", b"Host", b"Origin", b"Content-Type", (k if isinstance(k, bytes) else k.encode()).upper(), (k if isinstance(k, bytes) else k.encode()).lower()]), v)
                raw = r.bytes()
            elif el == "hvalue":
                r.headers[i] = (k, rng.choice(JUNK))
                raw = r.bytes()
            elif el == "dup":
                r.headers.insert(i, (k, v))
                raw = r.bytes()
            elif el == "delhdr":
                del r.headers[i]
                raw = r.bytes()
            else:
                sep = rng.choice([b":", b"", b" : ", b"::", b": : ", b"=", b"\t"])
                kb = k if isinstance(k, bytes) else k.encode()
                vb = v if isinstance(v, bytes) else v.encode()
                raw = r.bytes().replace(kb + b": " + vb, kb + sep + vb, 1)
        elif el == "numeric":
            name = rng.choice(["Content-Length", "Range", "Host", "Content-Range", "Access-Control-Max-Age"])
            val = rng.choice([b"a", b"-1", b"", b"18446744073709551616", b"1 2", b"+5", b"0x1", b"bytes=a-b", b"bytes=-", b"bytes=--1", b"bytes=1-0", b"bytes=-99999999999999999999", b"bytes=0-0,", b"bytes=,", b"bytes", b"bytes==", b"localhost:99999999999999999999999999999999999999999", b"localhost:a", b":", b"bytes=18446744073709551615-", b"bytes=-18446744073709551615", b"bytes=0-18446744073709551615"])
            r.headers = [(k, v) for k, v in r.headers if (k if isinstance(k, str) else "").lower() != name.lower()] + [(name, val)]
            raw = r.bytes()
            kind = "numeric:" + name
        elif el == "blank":
            raw = r.bytes()
            raw = rng.choice([raw.replace(b"\r\n\r\n", b"\r\n", 1), raw.replace(b"\r\n\r\n", b"\n\n", 1), raw.replace(b"\r\n\r\n", b"\r\n\r\n\r\n", 1), raw.replace(b"\r\n", b"\n"), raw.replace(b"\r\n", b"\r")])
        elif el == "body":
            r.body = rng.choice([b"", b"\x00" * 10, b"\xff\xfe\xfd", rng.bytes(200), b"a=b&c", b"=&=&", b"%", b"a=%ff", b"--", b"--x--\r\n", b"\r\n\r\n", b"a" * 20000,
                                 b"--B\r\nContent-Disposition: form-data\r\n\r\nv\r\n--B--\r\n", b"--B\r\n\r\nv\r\n--B--\r\n", b"--B\r\nContent-Disposition: form-data; name=\"f\"\r\n\r\n\xff\xfe\r\n--B--\r\n",
                                 b"--B\r\nContent-Disposition: form-data; filename=\"x\"\r\n\r\nv\r\n--B--\r\n", b"--B\r\nContent-Disposition: attachment; name=\"x\"\r\n\r\nv\r\n--B--\r\n"])
            if rng.chance(1, 2):
                r.headers = [(k, v) for k, v in r.headers if (k if isinstance(k, str) else "").lower() != "content-type"] + [("Content-Type", rng.choice(["multipart/form-data; boundary=B", "multipart/form-data; boundary=", "multipart/form-data; boundary=--", "multipart/form-data; boundary", "application/x-www-form-urlencoded", "multipart/form-data; boundary=\"B\"", "MULTIPART/FORM-DATA; BOUNDARY=B"]))]
                if rng.chance(1, 2):
                    r.method = "POST"
                    r.target = rng.choice(["/form-multipart-enctype-post-method", "/form-url-encoded-enctype-post-method"])
            raw = r.bytes()
        elif el == "line":
            raw = r.bytes()
            lines = raw.split(b"\r\n")
            i = rng.below(len(lines))
            lines[i] = rng.choice([b"", b"\xff", lines[i] + b"\x00", lines[i][: len(lines[i]) // 2], lines[i] * 2, b" " + lines[i], lines[i].replace(b" ", b"  "), lines[i].replace(b" ", b"\t")])
            raw = b"\r\n".join(lines)
        elif el == "truncate":
            raw = r.bytes()
            raw = raw[: rng.below(len(raw) + 1)]
        else:
            raw = r.bytes()
        out.append((kind, el, raw))
    return out


EXTREMES = [0, 1, 2 ** 15, 2 ** 16 - 1, 2 ** 31 - 1, 2 ** 31, 2 ** 32 - 1, 2 ** 32, 2 ** 63 - 1, 2 ** 63, 2 ** 64 - 5000, 2 ** 64 - 300, 2 ** 64 - 2, 2 ** 64 - 1, 2 ** 64, 2 ** 64 + 1,
            2 ** 127 - 1, 2 ** 127, 2 ** 128 - 5000, 2 ** 128 - 2, 2 ** 128 - 1, 2 ** 128, 10 ** 30, 2 ** 53, 2 ** 53 + 1]


def numeric_target_extremes(req):
    """deterministic block: every run of digits in the request target (query parameters of the upload / form routes, numbered
    paths) replaced by every extreme value"""
    import re
    out = []
    t = req.target if isinstance(req.target, str) else None
    if t is None:
        return out
    texts = [str(v) for v in EXTREMES] + ["-1", "-0", "+1", "01", "1.0", "1e3", "0x10", "", "a"]
    for m in list(re.finditer(r"[0-9]+", t))[:6]:
        for tx in texts:
            r = req.copy()
            r.target = t[:m.start()] + tx + t[m.end():]
            out.append(("numeric-extreme:target", "numeric", r.bytes()))
    return out


def numeric_extremes(req):
    """deterministic block: every numeric request header set to every extreme value (no random draw decides whether
    'Content-Length: 2^64-1' is tried)"""
    out = []
    texts = [str(v) for v in EXTREMES] + ["-1", "-0", "+1", "01", "1.0", "1e3", "0x10", "", " 7", "7 ", "a", "\u0661"]
    for name, fmt in (("Content-Length", "%s"), ("Range", "bytes=%s-"), ("Range", "bytes=0-%s"), ("Range", "bytes=-%s"), ("Range", "bytes=%s-%s"), ("Host", "localhost:%s"),
                      ("Content-Range", "bytes 0-%s/%s"), ("Access-Control-Max-Age", "%s"), ("Max-Forwards", "%s"), ("Keep-Alive", "timeout=%s")):
        for tx in texts:
            r = req.copy()
            val = fmt % ((tx,) * fmt.count("%s"))
            r.headers = [(k, v) for k, v in r.headers if (k if isinstance(k, str) else "").lower() != name.lower()] + [(name, val)]
            out.append(("numeric-extreme:" + name, "numeric", r.bytes()))
    return out


def line_ending_variants(req):
    """deterministic: the same request with LF-only / CR-only / mixed line breaks, in the head only and everywhere"""
    raw = req.bytes()
    head, sep, body = raw.partition(b"\r\n\r\n")
    out = []
    for name, f in (("lf", lambda b: b.replace(b"\r\n", b"\n")), ("cr", lambda b: b.replace(b"\r\n", b"\r")), ("lfcr", lambda b: b.replace(b"\r\n", b"\n\r")), ("crcrlf", lambda b: b.replace(b"\r\n", b"\r\r\n"))):
        out.append(("line-endings:%s:everywhere" % name, "line-endings", f(raw)))
        out.append(("line-endings:%s:head-only" % name, "line-endings", f(head + sep) + body))
        out.append(("line-endings:%s:body-only" % name, "line-endings", head + sep + f(body)))
    return out


def special_inputs(rng, quick=True):
    """Inputs that are not mutations of a valid request: sizes around the buffer, many header lines, random bytes."""
    out = []
    for n in ([1, 10, 100, 1000, 2000, 3000, 4000, 4900, 4990] if quick else [1, 2, 5, 10, 50, 100, 500, 1000, 1500, 2000, 2500, 3000, 3500, 4000, 4500, 4900, 4990, 4995]):
        raw = b"GET / HTTP/1.1\r\n" + b"\r\n".join([b"a"] * 0) + (b"a\n" * n)
        out.append(("many-header-lines:%d" % n, raw[:BUF * 4]))
        out.append(("many-crlf-header-lines:%d" % n, (b"GET / HTTP/1.1\r\n" + b"h: v\r\n" * n + b"\r\n")))
    base = b"GET / HTTP/1.1\r\nHost: x\r\nX-Pad: "
    for total in (0, 1, 2, BUF - 1, BUF, BUF + 1, 2 * BUF, 4 * BUF):
        if total <= len(base) + 4:
            raw = (b"GET / HTTP/1.1\r\n\r\n")[:total]
        else:
            raw = base + b"p" * (total - len(base) - 4) + b"\r\n\r\n"
        out.append(("size:%d" % total, raw))
    out.append(("only-newlines", b"\n" * 500))
    out.append(("only-crlf", b"\r\n" * 500))
    out.append(("nul-bytes", b"\x00" * 1000))
    out.append(("space-line", b" \r\n\r\n"))
    out.append(("two-requests", b"GET / HTTP/1.1\r\n\r\nGET / HTTP/1.1\r\n\r\n"))
    for i in range(30 if quick else 300):
        n = rng.choice([1, 3, 16, 100, 1000, BUF, BUF + 7])
        out.append(("random-bytes", rng.bytes(n)))
    for i in range(20 if quick else 200):
        n = rng.choice([5, 40, 400])
        junk = bytes(rng.choice(b"GET POSTHTP/1.\r\n: abc%?#=&") for _ in range(n))
        out.append(("random-tokens", junk))
    return out


def _with_length(r, body):
    r = r.copy()
    r.body = body
    r.headers = [(k, (str(len(body)) if (k if isinstance(k, str) else k.decode("latin-1")).lower() == "content-length" else v)) for k, v in r.headers]
    return r


def bombs(valid, size=BUF - 100):
    """'repetition bombs' that stay inside one read of `size` bytes: one structural unit of a valid request - a body line,
    a multipart part (full and minimal), a form pair, a range spec, a path segment, a header line, a header-value element -
    repeated as often as fits.  Deterministic; yields (kind, element, raw)."""
    from . import mutate
    out = []
    seen_routes = set()
    valid = list(valid)
    for r in list(valid):
        # the same multipart form with the shortest possible boundary: more parts fit into one read
        ct = dict((k if isinstance(k, str) else k.decode("latin-1"), v) for k, v in r.headers).get("Content-Type", "")
        if isinstance(ct, str) and "boundary=" in ct and r.route == "form-multipart":
            b = ct.split("boundary=", 1)[1]
            r2 = _with_length(r, r.body.replace(b.encode(), b"b"))
            r2.headers = [(k, (v.replace(b, "b") if k == "Content-Type" else v)) for k, v in r2.headers]
            r2.route = "form-multipart-short-boundary"
            valid.append(r2)
    for r in valid:
        if r.route in seen_routes:
            continue
        seen_routes.add(r.route)
        head_len = len(r.bytes()) - len(r.body)
        room = max(200, size - head_len - 8)
        if r.body:
            for kind, m in mutate.repetitions(r.body, (room,), seps=(b"&", b";", b"=")):
                if len(m) <= room + 400:
                    out.append(("bomb-body-" + kind.split(":")[0], "body", _with_length(r, m).bytes()))
        t = r.target if isinstance(r.target, str) else None
        if t is not None:
            room_t = max(50, size - len(r.bytes()) - 8)
            path, q = (t.split("?", 1) + [""])[:2] if "?" in t else (t, "")
            seg = "/" + (path.strip("/").split("/")[0] or "a")
            for name, unit, build in (("path-segment", seg, lambda u, n: u * n + ("?" + q if q else "")),
                                      ("dot-segment", "/.", lambda u, n: u * n + path),
                                      ("dotdot-segment", "/a/..", lambda u, n: u * n + path),
                                      ("escape", "%41", lambda u, n: path + u * n),
                                      ("query-pair", "&a=b", lambda u, n: path + "?x=1" + u * n),
                                      ("query-amp", "&", lambda u, n: path + "?" + u * n),
                                      ("fragment-hash", "#", lambda u, n: path + u * n)):
                r2 = r.copy()
                r2.target = build(unit, max(2, room_t // len(unit)))
                out.append(("bomb-target-" + name, "target", r2.bytes()))
        for i, (k, v) in enumerate(r.headers):
            ks = k if isinstance(k, str) else k.decode("latin-1")
            vs = v if isinstance(v, str) else v.decode("latin-1")
            room_h = max(50, size - len(r.bytes()) - 8)
            for sep in (",", ";", "=", " "):
                if sep in vs or ks.lower() in ("range", "accept", "origin", "content-type"):
                    parts = vs.split(sep)
                    el = parts[-1] if parts[-1] else "x"
                    n = max(2, room_h // (len(el) + len(sep)))
                    r2 = r.copy()
                    r2.headers[i] = (k, sep.join(parts + [el] * n))
                    out.append(("bomb-header-element:%s:%r" % (ks.lower(), sep), "hvalue", r2.bytes()))
            line = len(ks) + len(vs) + 4
            r2 = r.copy()
            r2.headers = r.headers[:i] + [(k, v)] * max(2, room_h // line) + r.headers[i + 1:]
            out.append(("bomb-header-line:%s" % ks.lower(), "dup", r2.bytes()))
    return out


def header_value_truncations(req, cap=80):
    """every prefix of every header value (deterministic; at most `cap` per header, spread over the value), also with
    the parameter value quoted as RFC 2045 / 7231 allow; yields (kind, element, raw)"""
    out = []
    for i, (k, v) in enumerate(req.headers):
        vs = v if isinstance(v, str) else v.decode("latin-1")
        forms = [vs]
        if "=" in vs and '"' not in vs:
            a, b = vs.rsplit("=", 1)
            forms.append(a + '="' + b + '"')
        for f in forms:
            cuts = list(range(len(f))) if len(f) <= cap else sorted(set(list(range(0, len(f), max(1, len(f) // cap))) + list(range(max(0, len(f) - 12), len(f)))))
            for n in cuts:
                r = req.copy()
                r.headers[i] = (k, f[:n])
                out.append(("hvalue-truncated", "hvalue", r.bytes()))
            if f is not vs:
                r = req.copy()
                r.headers[i] = (k, f)
                out.append(("hvalue-quoted-parameter", "hvalue", r.bytes()))
    return out


# request headers that real clients, proxies and browsers send (RFC 9110/9111/9112, Fetch metadata, client hints, CORS,
# conditional and range requests, forwarding): name, typical values.  None of them may change what the properties promise.
HEADER_DICTIONARY = [
    ("Accept", ["text/html,application/xhtml+xml,application/xml;q=0.9,image/avif,image/webp,*/*;q=0.8", "image/*", "application/json"]),
    ("Accept-Encoding", ["gzip, deflate, br", "identity", "*;q=0"]), ("Accept-Language", ["en-US,en;q=0.9,uk;q=0.8", "*"]), ("Accept-Charset", ["utf-8"]),
    ("Cache-Control", ["no-cache", "max-age=0", "only-if-cached"]), ("Pragma", ["no-cache"]), ("Connection", ["keep-alive", "close", "Upgrade"]), ("Keep-Alive", ["timeout=5, max=100"]),
    ("Upgrade", ["websocket", "h2c"]), ("HTTP2-Settings", ["AAMAAABkAARAAAAAAAIAAAAA"]), ("Upgrade-Insecure-Requests", ["1"]), ("TE", ["trailers", "gzip"]), ("Trailer", ["Expires"]),
    ("Transfer-Encoding", ["chunked", "identity"]), ("Content-Encoding", ["gzip"]), ("Content-Language", ["en"]), ("Content-MD5", ["Q2hlY2sgSW50ZWdyaXR5IQ=="]), ("Content-Location", ["/other"]),
    ("Expect", ["100-continue"]), ("Max-Forwards", ["0", "10"]), ("From", ["user@example.com"]), ("Referer", ["https://ref.example/page?x=1"]), ("User-Agent", ["Mozilla/5.0 (X11; Linux x86_64) AppleWebKit/537.36 (KHTML, like Gecko) Chrome/120.0 Safari/537.36", "curl/8.4.0", ""]),
    ("Authorization", ["Basic dXNlcjpwYXNz", "Bearer abc.def.ghi"]), ("Proxy-Authorization", ["Basic dXNlcjpwYXNz"]), ("Cookie", ["session=abc123; theme=dark", "a=b"]), ("Cookie2", ["$Version=1"]),
    ("If-Modified-Since", ["Wed, 21 Oct 2015 07:28:00 GMT", "Thu, 01 Jan 2099 00:00:00 GMT"]), ("If-Unmodified-Since", ["Wed, 21 Oct 2015 07:28:00 GMT"]), ("If-None-Match", ['"abc"', "*", 'W/"67ab43"']), ("If-Match", ["*", '"xyz"']),
    ("If-Range", ['"abc"', "Wed, 21 Oct 2015 07:28:00 GMT"]), ("Range", ["bytes=0-0"]), ("DNT", ["1"]), ("Sec-GPC", ["1"]),
    ("Sec-Fetch-Dest", ["document", "image", "script", "style", "font", "video", "audio", "worker", "empty", "iframe", "object", "manifest", "track", "embed", "report"]),
    ("Sec-Fetch-Mode", ["navigate", "no-cors", "cors", "same-origin", "websocket"]), ("Sec-Fetch-Site", ["none", "same-origin", "same-site", "cross-site"]), ("Sec-Fetch-User", ["?1"]), ("Sec-Purpose", ["prefetch", "prefetch;prerender"]), ("Purpose", ["prefetch"]),
    ("Save-Data", ["on", "On", "off"]), ("Device-Memory", ["8", "0.25"]), ("Downlink", ["10", "0.5"]), ("ECT", ["4g", "slow-2g"]), ("RTT", ["50"]), ("Viewport-Width", ["1280"]), ("Width", ["640"]), ("DPR", ["2.0"]),
    ("Sec-CH-UA", ['"Chromium";v="120", "Not A;Brand";v="99"']), ("Sec-CH-UA-Mobile", ["?0", "?1"]), ("Sec-CH-UA-Platform", ['"Linux"']), ("Sec-CH-UA-Arch", ['"x86"']), ("Sec-CH-UA-Bitness", ['"64"']), ("Sec-CH-UA-Model", ['""']),
    ("Sec-CH-UA-Full-Version-List", ['"Chromium";v="120.0.6099.71"']), ("Sec-CH-UA-Platform-Version", ['"6.5.0"']), ("Sec-CH-UA-WoW64", ["?0"]), ("Sec-CH-Prefers-Color-Scheme", ["dark"]), ("Sec-CH-Prefers-Reduced-Motion", ["reduce"]),
    ("Sec-CH-Viewport-Width", ["1280"]), ("Sec-CH-Viewport-Height", ["720"]), ("Sec-CH-DPR", ["2"]), ("Sec-CH-Width", ["640"]), ("Sec-CH-Device-Memory", ["8"]), ("Sec-CH-Save-Data", ["?1"]), ("Sec-CH-Downlink", ["10"]), ("Sec-CH-ECT", ["4g"]), ("Sec-CH-RTT", ["50"]),
    ("Critical-CH", ["Sec-CH-UA-Model"]), ("Accept-CH", ["Sec-CH-UA-Arch"]), ("Origin", ["null", "https://app.example"]), ("Access-Control-Request-Method", ["DELETE"]), ("Access-Control-Request-Headers", ["x-custom, content-type"]),
    ("Access-Control-Request-Private-Network", ["true"]), ("Forwarded", ["for=192.0.2.60;proto=https;by=203.0.113.43;host=files.example"]), ("X-Forwarded-For", ["203.0.113.195, 70.41.3.18"]), ("X-Forwarded-Proto", ["https"]), ("X-Forwarded-Host", ["files.example"]),
    ("X-Forwarded-Port", ["443"]), ("X-Real-IP", ["203.0.113.195"]), ("Via", ["1.1 vegur", "HTTP/1.1 proxy.example"]), ("X-Requested-With", ["XMLHttpRequest"]), ("X-HTTP-Method-Override", ["DELETE", "PUT"]), ("X-Original-URL", ["/admin"]), ("X-Rewrite-URL", ["/../secret"]),
    ("Content-Type", ["text/plain", "application/json; charset=utf-8"]), ("Content-Length", ["0"]), ("Content-Disposition", ['attachment; filename="a.txt"']), ("Content-Range", ["bytes 0-0/1"]), ("Host", ["files.example", "files.example:8080", "[::1]:7878", ""]),
    ("Priority", ["u=0, i"]), ("Early-Data", ["1"]), ("Alt-Used", ["files.example"]), ("Service-Worker", ["script"]), ("Service-Worker-Navigation-Preload", ["true"]), ("Last-Event-ID", ["42"]), ("Ping-From", ["https://a.example/"]), ("Ping-To", ["https://b.example/"]),
    ("Idempotency-Key", ['"8e03978e-40d5-43e8-bc93-6894a57f9324"']), ("Prefer", ["return=minimal"]), ("Want-Digest", ["sha-256"]), ("Digest", ["sha-256=X48E9qOokqqrvdts8nOJRJN3OWDUoyWxBf7kbu9DBPE="]), ("Date", ["Wed, 21 Oct 2015 07:28:00 GMT"]), ("Warning", ['199 - "misc"']),
]


def dictionary_requests(valid, rng=None):
    """each dictionary header (every listed value, name in canonical / lower / upper case) added to a few representative
    valid requests, plus one browser-like request carrying them all; yields (kind, element, raw)"""
    out = []
    reps = []
    want = ("static", "notfound", "static-head", "static-preflight", "form-urlencoded", "index")
    for w in want:
        r = next((x for x in valid if x.route == w), None)
        if r is not None:
            reps.append(r)
    k = 0
    for name, values in HEADER_DICTIONARY:
        for v in values:
            for spell in (name, name.lower()) if k % 3 else (name, name.lower(), name.upper()):
                r = reps[k % len(reps)].copy()
                k += 1
                have = [i for i, (hn, _) in enumerate(r.headers) if (hn if isinstance(hn, str) else hn.decode("latin-1")).lower() == name.lower()]
                if have and name.lower() in ("content-length", "content-type", "host"):
                    continue   # replacing the framing of a valid request is the mutation campaign's business
                r.headers = r.headers + [(spell, v)]
                out.append(("dictionary-header:%s" % name.lower(), "hdict", r.bytes()))
    for r in reps[:3]:
        r2 = r.copy()
        have = set((hn if isinstance(hn, str) else hn.decode("latin-1")).lower() for hn, _ in r2.headers)
        r2.headers = r2.headers + [(n, vs[0]) for n, vs in HEADER_DICTIONARY if n.lower() not in have and n.lower() not in ("content-length", "transfer-encoding", "range", "if-range", "host", "expect")]
        out.append(("dictionary-header:all-at-once", "hdict", r2.bytes()))
    return out


def chunked_requests(valid):
    """requests that use chunked transfer coding (RFC 9112 7.1) - whether or not the server understands it, it has to answer:
    well-formed chunked bodies (with extensions and trailers) and every extreme / malformed chunk-size line; yields (kind, element, raw)"""
    out = []
    targets = []
    for r in valid:
        if r.route in ("form-urlencoded", "form-multipart", "static", "notfound") and r.route not in [x.route for x in targets]:
            targets.append(r)
    sizes = ["5", "05", "00000000000000005", "5;ext=1", "5 ; a=b", "FFFFFFFFFFFFFFFF", "ffffffffffffffff", "FFFFFFFFFFFFFFFE", "7FFFFFFFFFFFFFFF", "8000000000000000", "10000000000000000", "FFFFFFFF", "80000000",
             "7FFFFFFF", "-1", "0x5", "5 ", " 5", "g", "", "1e3", "5.0", "+5", "٥"]
    for r in targets:
        base = r.copy()
        base.method = "POST" if base.method in ("GET", "HEAD") else base.method
        base.headers = [(k, v) for k, v in base.headers if (k if isinstance(k, str) else k.decode("latin-1")).lower() != "content-length"] + [("Transfer-Encoding", "chunked")]
        for sz in sizes:
            for tail in ("\r\nhello\r\n0\r\n\r\n", "\r\nhello\r\n0\r\nX-Trailer: 1\r\n\r\n", "\r\nhel", "\r\n"):
                r2 = base.copy()
                r2.body = (sz + tail).encode("utf-8")
                out.append(("chunked:size=%s" % sz[:20], "body", r2.bytes()))
        r3 = base.copy()
        r3.body = b"".join(b"1\r\nx\r\n" for _ in range(1200)) + b"0\r\n\r\n"
        out.append(("chunked:many-chunks", "body", r3.bytes()))
        r4 = base.copy()
        r4.headers = r4.headers + [("Content-Length", "5")]
        r4.body = b"5\r\nhello\r\n0\r\n\r\n"
        out.append(("chunked:with-content-length", "body", r4.bytes()))
    return out

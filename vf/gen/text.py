"""Text generators: printable Unicode, tokens."""
ASCII_PRINT = [chr(c) for c in range(0x20, 0x7f)]
RESERVED = list("&=%+?#/:;,@[]()!$'*\" ")
UNI = list("éñüßøЖдяїєґ中文日本語한국어αβγ€£¥©®™§¶•…—–“”‘’«»") + ["\U0001F600", "\U0001F680", "\U00010348", "\U0001D11E", "\U0002070E"]
TOKEN_CHARS = list("abcdefghijklmnopqrstuvwxyzABCDEFGHIJKLMNOPQRSTUVWXYZ0123456789-_")


def printable(rng, lo=1, hi=20, weights=(5, 3, 2), exclude=""):
    """printable text: ASCII printable / reserved / non-ASCII with the given weights"""
    n = rng.range(lo, hi)
    out = []
    tot = sum(weights)
    while len(out) < n:
        r = rng.below(tot)
        if r < weights[0]:
            ch = rng.choice(ASCII_PRINT)
        elif r < weights[0] + weights[1]:
            ch = rng.choice(RESERVED)
        else:
            ch = rng.choice(UNI)
        if ch in exclude:
            continue
        out.append(ch)
    return "".join(out)


def token(rng, lo=1, hi=12):
    return "".join(rng.choice(TOKEN_CHARS) for _ in range(rng.range(lo, hi)))

"""Helpers for `serve` cases (Server::process / Server::process_request on a scripted transport)."""
from . import core


def case(cid, raw, entry="process", handler="app", bufsize=10000, read="ok", write="all", flush="ok", meta=None):
    return core.Case(cid, "serve", [entry, handler, str(bufsize), read, write, flush, raw], meta)


class Served:
    """Decoded observation of a serve case."""

    def __init__(self, obs):
        self.obs = obs
        self.outcome = obs.outcome
        self.result = ""
        self.n_writes = 0
        self.writes = []
        self.accepted = b""
        self.flushes = 0
        if obs.outcome == "ok":
            self.result = obs.s(0)
            self.n_writes = obs.n(1)
            w = obs.s(2)
            self.writes = [tuple(int(x) for x in p.split(":")) for p in w.split(";") if p]
            self.accepted = obs.fields[3] if len(obs.fields) > 3 else b""
            self.flushes = obs.n(4)
        elif obs.outcome == "panic" and len(obs.fields) >= 6:
            self.n_writes = obs.n(3)
            self.accepted = obs.fields[4]
            self.flushes = obs.n(5)

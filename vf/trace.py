"""Offline checkers over the hook event log written by `vh pool` (C06, C07, C08)."""
import hashlib


class Scenario:
    def __init__(self, fields):
        (self.id, self.kind, n, submitted, first_id, started, ended, maxrun, pseed, census, flags) = fields[:11]
        self.n, self.submitted, self.first_id, self.started, self.ended, self.max_running, self.pseed = int(n), int(submitted), int(first_id), int(started), int(ended), int(maxrun), int(pseed)
        self.census = census.split(",") if census else []
        self.flags = [] if flags == "-" else flags.split(",")
        self.events = []   # (seq, ns, thread, point, arg)
        self.resps = []    # (task id, case id, result, writes, accepted bytes, flushes)
        self.panics = []   # (thread, message, "file|function")


def parse(path):
    scns, cur = [], {}
    pending_ev, pending_resp = [], []
    for line in open(path, errors="replace"):
        p = line.rstrip("\n").split("\t")
        if p[0] == "SCN":
            s = Scenario(p[1:])
            scns.append(s)
            cur[s.id] = s
        elif p[0] == "EV":
            s = cur.get(p[1])
            if s is not None:
                s.events.append((int(p[2]), int(p[3]), p[4], p[5], int(p[6])))
        elif p[0] == "PANIC":
            s = cur.get(p[1])
            if s is not None:
                un = lambda x: b"" if x == "-" else bytes.fromhex(x)
                s.panics.append((p[2], un(p[3]).decode("utf-8", "replace"), un(p[4]).decode("utf-8", "replace")))
        elif p[0] == "RESP":
            s = cur.get(p[1])
            if s is not None:
                un = lambda x: b"" if x == "-" else bytes.fromhex(x)
                s.resps.append((int(p[2]), p[3], un(p[4]).decode("utf-8", "replace"), un(p[5]).decode(), un(p[6]), int(p[7])))
    return scns


HOOKS = ("BeforeLock", "Locked", "Received", "Finished")


def check(s, expect_all_complete=True):
    """returns (violations [(clause, text)], stats dict)"""
    v = []
    ev = sorted(s.events)
    submit = [e[4] for e in ev if e[3] == "SubmitTask"]
    starts, ends = {}, {}
    for e in ev:
        if e[3] == "TaskStart":
            starts.setdefault(e[4], []).append(e[2])
        elif e[3] == "TaskEnd":
            ends.setdefault(e[4], []).append(e[2])
    # exactly once
    for tid in submit:
        ns, ne = len(starts.get(tid, [])), len(ends.get(tid, []))
        if ns > 1 or ne > 1:
            v.append(("task-duplicated", "task %d started %d times, ended %d times" % (tid, ns, ne)))
        elif expect_all_complete and (ns == 0 or ne == 0):
            v.append(("task-lost" if ns == 0 else "task-never-finished", "task %d: %d start(s), %d end(s) at quiescence (queue not drained)" % (tid, ns, ne)))
    for tid in starts:
        if tid not in submit:
            v.append(("task-not-submitted", "task %d ran but was never submitted in this scenario" % tid))
    # conservation at quiescence
    if expect_all_complete and not (s.submitted == s.started == s.ended):
        v.append(("conservation", "submitted=%d started=%d ended=%d" % (s.submitted, s.started, s.ended)))
    # per-worker automaton + lock discipline
    state = {}
    holder = None   # worker currently between Locked and Received
    overlap_now, max_overlap = 0, 0
    for (seq, ns, th, point, arg) in ev:
        if point in HOOKS:
            w = arg
            st = state.get(w)
            if point == "BeforeLock":
                if st not in (None, "Finished", "Received", "start"):
                    v.append(("worker-automaton", "worker %d: BeforeLock after %s" % (w, st)))
            elif point == "Locked":
                if st not in (None, "BeforeLock"):
                    v.append(("worker-automaton", "worker %d: Locked after %s" % (w, st)))
                # not judged: the Received hook sits after the statement that drops the guard, so another worker's Locked may
                # legitimately be logged before it; lock scope is decided behaviourally (rendezvous, slow-task isolation)
                holder = w
            elif point == "Received":
                if st not in (None, "Locked"):
                    v.append(("worker-automaton", "worker %d: Received after %s" % (w, st)))
                if holder == w:
                    holder = None
            elif point == "Finished":
                if st not in (None, "TaskEnd", "Received", "TaskStart"):
                    v.append(("worker-automaton", "worker %d: Finished after %s" % (w, st)))
            state[w] = point
        elif point in ("TaskStart", "TaskEnd"):
            try:
                w = int(th)
            except ValueError:
                v.append(("task-on-foreign-thread", "task %d ran on thread %r" % (arg, th)))
                continue
            st = state.get(w)
            if point == "TaskStart":
                if st not in (None, "Received"):
                    v.append(("job-outside-received-finished", "worker %d started task %d while in state %s (a job must run after Received, i.e. after the queue lock is released)" % (w, arg, st)))
                overlap_now += 1
                max_overlap = max(max_overlap, overlap_now)
            else:
                overlap_now -= 1
            state[w] = point
    # behavioural clauses recorded by the driver
    for f in s.flags:
        if f == "rendezvous-incomplete":
            v.append(("rendezvous-incomplete", "%d tasks blocking on a rendezvous of %d never ran simultaneously on %d workers (max simultaneous %d)" % (s.submitted, min(s.n, s.submitted), s.n, s.max_running)))
        elif f == "instant-tasks-blocked-behind-long-task":
            v.append(("slow-task-blocks-others", "instant tasks did not finish while one long task was running on a pool of %d" % s.n))
        elif f == "long-task-never-started":
            v.append(("task-lost", "the long task was never started"))
        elif f == "not-all-tasks-ended" and expect_all_complete:
            v.append(("task-never-finished", "not all tasks ended before the no-progress watchdog"))
        elif f == "workers-not-back-in-loop" and expect_all_complete:
            v.append(("worker-not-back-in-loop", "census at quiescence: %s" % s.census))
    if s.kind == "rendezvous" and "rendezvous-incomplete" not in s.flags:
        k = min(s.n, s.submitted)
        if s.max_running < k:
            v.append(("rendezvous-incomplete", "max simultaneous tasks %d < %d" % (s.max_running, k)))
    # interleaving signature: the event sequence projected on (worker/thread, point)
    h = hashlib.sha256()
    for (seq, ns, th, point, arg) in ev:
        h.update(("%s:%s;" % (arg if point in HOOKS else th, point)).encode())
    stats = {"events": len(ev), "signature": h.hexdigest()[:16], "max_overlap": max(max_overlap, s.max_running),
             "per_point": {p: sum(1 for e in ev if e[3] == p) for p in ("Submit", "BeforeLock", "Locked", "Received", "Finished", "TaskStart", "TaskEnd")}}
    return v, stats

"""Run raw requests through Engine A (in-process, either entry point) and Engine B (real binary)."""
import base64
from . import core, serve, server, httpstrict, oracles


class Result:
    __slots__ = ("raw_request", "response", "status", "crashed", "obs", "end", "engine", "entry", "meta", "case")

    def __init__(self, raw_request, response, crashed=False, obs=None, end="eof", engine="A", entry="process", meta=None, case=None):
        self.raw_request, self.response, self.crashed, self.obs, self.end, self.engine, self.entry, self.meta, self.case = raw_request, response, crashed, obs, end, engine, entry, meta, case
        self.status = None

    def parsed(self, method="GET"):
        return httpstrict.parse(self.response, head_request=method.upper() in ("HEAD", "OPTIONS"))


def inproc(tree_root, raws, entry="process", lane="rel", metas=None, env=None, bufsize=10000):
    cases = []
    for i, raw in enumerate(raws):
        cases.append(serve.case("q%d" % i, raw, entry=entry, bufsize=bufsize, meta=(metas[i] if metas else None)))
    obs = core.run_cases(cases, lane=lane, cwd=tree_root, env=env)
    out = []
    for i, raw in enumerate(raws):
        o = obs.get("q%d" % i)
        m = metas[i] if metas else None
        if o is None or o.outcome == "missing":
            out.append(Result(raw, b"", crashed=False, obs=None, end="missing", engine="A", entry=entry, meta=m, case=cases[i]))
            continue
        sv = serve.Served(o)
        out.append(Result(raw, sv.accepted, crashed=o.outcome in ("panic", "died", "timeout"), obs=o, engine="A", entry=entry, meta=m, case=cases[i]))
    return out


def binary(srv, raws, metas=None, restart=None, threads=None):
    """sequential requests against a running server; `restart()` is called when the process or a worker is lost"""
    out = []
    import time
    for i, raw in enumerate(raws):
        m = metas[i] if metas else None
        before = len(srv.crash_lines())
        data, end = srv.request(raw)
        # a panic message is printed before the worker unwinds and closes the socket, so the log decides attribution;
        # the census (after a short grace period for the thread to exit) is the fallback
        crashed = (not srv.alive()) or len(srv.crash_lines()) > before
        if not crashed and not data:
            time.sleep(0.05)
            crashed = (not srv.alive()) or len(srv.crash_lines()) > before or (threads is not None and len(srv.workers_alive()) < threads)
        out.append(Result(raw, data, crashed=crashed, end=end, engine="B", entry="binary", meta=m))
        if crashed and restart:
            srv = restart(srv)
            if srv is None:
                break
    return out, srv


def b64(b):
    return base64.b64encode(b[:4000]).decode()

"""Reference models: documented static lookup, RFC 7233 range resolution."""
import os, stat, re
from .gen.tree import CORE_TYPES


def lookup(root, url_path):
    """Documented lookup on the real tree: path without ?query/#fragment -> regular file => that file;
    directory => its index.html if a regular file; otherwise path + '.html' if a regular file; else nothing.
    The mapping 'cwd + URL path' is evaluated by the OS (symlinks, '//', trailing slashes behave as the OS says).
    returns (branch, absolute path or None)"""
    p = url_path.split("?", 1)[0].split("#", 1)[0]
    full = root + p
    try:
        st = os.stat(full)
    except OSError:
        st = None
    if st is not None and stat.S_ISREG(st.st_mode):
        return "file", full
    if st is not None and stat.S_ISDIR(st.st_mode):
        idx = full + ("index.html" if full.endswith("/") else "/index.html")
        try:
            if stat.S_ISREG(os.stat(idx).st_mode):
                return "dir-index", idx
        except OSError:
            pass
        return "dir-no-index", None
    if not p.endswith("/"):
        h = full + ".html"
        try:
            if stat.S_ISREG(os.stat(h).st_mode):
                return "html-fallback", h
        except OSError:
            pass
    return "nothing", None


def ext_of(path):
    b = os.path.basename(path)
    if "." not in b:
        return None
    return b.rsplit(".", 1)[1]


def type_ok(ext, content_type):
    """absolute check for the core table; None when the extension is outside the core table"""
    if ext is None:
        return content_type == "application/octet-stream"
    want = CORE_TYPES.get(ext)
    if want is None:
        return None
    ct = (content_type or "").split(";")[0].strip().lower()
    return ct in (want if isinstance(want, tuple) else (want,))


# ---------------------------------------------------------------- ranges (RFC 7233)
def parse_spec(spec):
    """returns ('closed', a, b) | ('open', a) | ('suffix', n) | None when malformed"""
    s = spec.strip(" ")
    m = re.match(r"^([0-9]+) *- *([0-9]+)$", s)
    if m:
        return ("closed", int(m.group(1)), int(m.group(2)))
    m = re.match(r"^([0-9]+) *-$", s)
    if m:
        return ("open", int(m.group(1)))
    m = re.match(r"^- *([0-9]+)$", s)
    if m:
        return ("suffix", int(m.group(1)))
    return None


def resolve(spec, L):
    """(status, first, last): status 'inside' (exact slice required) | 'outside' (416 or clamped) | 'malformed'"""
    p = parse_spec(spec)
    if p is None:
        return ("malformed", None, None)
    U64 = 2 ** 64 - 1
    if p[0] == "closed":
        _, a, b = p
        if a > U64 or b > U64:
            return ("malformed", None, None)
        if a <= b < L:
            return ("inside", a, b)
        return ("outside", a, b)
    if p[0] == "open":
        a = p[1]
        if a > U64:
            return ("malformed", None, None)
        if a < L:
            return ("inside", a, L - 1)
        return ("outside", a, None)
    n = p[1]
    if n > U64:
        return ("malformed", None, None)
    if 1 <= n <= L:
        return ("inside", L - n, L - 1)
    return ("outside", None, None)


def header_specs(value):
    """split a Range header value 'bytes=a-b, c-d' into spec strings; None if the unit prefix is wrong"""
    if not value.startswith("bytes="):
        return None
    return value[len("bytes="):].split(",")

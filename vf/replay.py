"""./check <Cxx> --replay FILE : re-execute a recorded violation against the current tree."""
import json, base64, os, importlib, shutil
from . import core, ctx as ctxmod


def run(prop, path):
    d = json.load(open(path))
    sig = d.get("signature", "")
    case = d.get("case")
    if case and case.get("op") and not d.get("tree"):
        # single library-level case: execute exactly these bytes
        fields = [base64.b64decode(x) for x in case["fields_b64"]]
        cs = core.Case("replay", case["op"], fields)
        cwd = core.scratch("replay-")
        try:
            lanes = [d.get("lane")] if d.get("lane") in ("rel", "chk") else ["rel", "chk"]
            hit = False
            for lane in lanes:
                o = core.run_cases([cs], lane=lane, cwd=cwd).get("replay")
                print("lane %s: %s" % (lane, o.summary() if o else "no observation"))
                if o and o.outcome in ("panic", "died", "timeout"):
                    entry = (d.get("meta") or {}).get("entry", "?")
                    s2 = ctxmod.crash_sig(prop, entry, o)
                    print("signature now: %s" % s2)
                    if s2.split(":")[:4] == sig.split(":")[:4] or s2 == sig:
                        hit = True
            if hit:
                print("VIOLATION property=%s replay=%s" % (prop, path))
                return 1
            print("the recorded crash does not reproduce on the current tree")
            return 0
        finally:
            shutil.rmtree(cwd, ignore_errors=True)
    # campaign-level witness (needs a generated tree / server / history): re-run the campaign at the recorded seed
    seed, tier = int(d.get("seed", 0)), d.get("tier", "quick")
    mod = importlib.import_module("vf.props." + prop.lower())
    c = ctxmod.Ctx(prop, tier, seed)
    c.known = {}
    mod.run(c)
    again = sig in c.violations
    print("re-ran the %s campaign of %s at seed %d: signature %s %s" % (tier, prop, seed, sig, "REPRODUCED" if again else "not reproduced"))
    if again:
        print("VIOLATION property=%s replay=%s" % (prop, path))
        return 1
    return 0

C04:worker-lost:binary:panic@src/request/mod.rs

C04:panic:src/request/mod.rs:rws::request::Request::cursor_read:called_`Result::unwrap()`_on_an_`Err`_value:_ParseIntError

C04:overflow:src/range/mod.rs:rws::range::Range::parse_range_in_content_range:attempt_to_subtract_with_overflow

C04:worker-lost:binary:panic@src/app/controller/static_resource/mod.rs

C04:worker-lost:binary:stack-overflow

C04:panic:src/server/mod.rs:rws::server::Server::process:called_`Result::unwrap()`_on_an_`Err`_value:_"_"

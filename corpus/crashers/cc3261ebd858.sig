C04:panic:dep:url-build-parse-11.0.0/src/lib.rs:url_build_parse::parse_authority:called_`Result::unwrap()`_on_an_`Err`_value:_"_"

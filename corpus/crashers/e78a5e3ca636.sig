C04:worker-lost:binary:panic@src/app/controller/form/url_encoded_enctype_post_method/mod.rs

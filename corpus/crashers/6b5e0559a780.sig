C04:worker-lost:binary:panic@dep:url-build-parse-11.0.0/src/lib.rs

#![no_main]
//! One libFuzzer target dispatching on the first input byte to a parsing entry point (the `vh probe` op table).
//! Panics are caught, deduplicated by (message, location, innermost rws function) and appended to the file named by
//! VH_FUZZ_FINDINGS together with the hex of the input; the fuzzer keeps running. Aborts (stack exhaustion) and
//! time-outs are left to libFuzzer's own artefacts (-fork mode, -ignore_crashes=1, -timeout).

#[path = "../../src/codec.rs"]
#[allow(dead_code)]
mod codec;
#[path = "../../src/jsonmodel.rs"]
#[allow(dead_code)]
mod jsonmodel;
#[path = "../../src/transport.rs"]
#[allow(dead_code)]
mod transport;
#[path = "../../src/probe.rs"]
#[allow(dead_code)]
mod probe;

use libfuzzer_sys::fuzz_target;
use std::collections::HashSet;
use std::io::Write;
use std::sync::{Mutex, Once};

static INIT: Once = Once::new();
static SEEN: Mutex<Option<HashSet<String>>> = Mutex::new(None);

// (op, shape): how the input bytes become the fields of the op
const OPS: &[(&str, u8)] = &[
    ("json.parse.props", 0), ("json.parse.struct", 0), ("json.parse.prop", 0), ("json.parse.split", 0), ("json.parse.l_obj", 0),
    ("json.parse.l_str", 0), ("json.parse.l_bool", 0), ("json.parse.l_null", 0), ("json.parse.l_f32", 0), ("json.parse.l_f64", 0),
    ("json.parse.l_i8", 0), ("json.parse.l_i64", 0), ("json.parse.l_i128", 0), ("json.parse.l_u8", 0), ("json.parse.l_u128", 0),
    ("b64.decode", 0), ("mp.parse", 1), ("mp.boundary", 0), ("req.parse", 0), ("resp.parse", 0), ("resp._parse", 0),
    ("resp.hdr", 0), ("resp._hdr", 0), ("resp.status_line", 0), ("req.hdr", 0), ("req.line", 0), ("hdr.parse", 0), ("cd.parse", 0),
    ("range.parse", 2), ("range.content", 3), ("range.crhv", 0), ("range.rawcrhv", 0), ("range.mp", 0), ("range._mp", 0), ("range.mpb", 4),
    ("form.parse", 0), ("url.parse", 0), ("query.parse", 0), ("url.decode", 0), ("req.uri", 0), ("cfg.read", 5),
    ("urlpath.parts", 0), ("urlpath.is_matching", 6), ("urlpath.extract", 6), ("serve", 7),
];

fn fields(shape: u8, data: &[u8]) -> Vec<Vec<u8>> {
    let split = |d: &[u8], sep: u8| -> (Vec<u8>, Vec<u8>) {
        match d.iter().position(|b| *b == sep) {
            Some(i) => (d[..i].to_vec(), d[i + 1..].to_vec()),
            None => (d.to_vec(), vec![]),
        }
    };
    match shape {
        1 => { let (a, b) = split(data, b'\n'); vec![a, b] }
        2 => vec![b"100".to_vec(), data.to_vec()],
        3 => vec![b"/repo-file".to_vec(), b"1000".to_vec(), data.to_vec()],
        4 => vec![b"String_separator".to_vec(), data.to_vec()],
        5 => vec![data.to_vec(), vec![]],
        6 => { let (a, b) = split(data, b'|'); vec![a, b] }
        7 => vec![b"process".to_vec(), b"app".to_vec(), b"10000".to_vec(), b"ok".to_vec(), b"all".to_vec(), b"ok".to_vec(), data.to_vec()],
        _ => vec![data.to_vec()],
    }
}

fuzz_target!(|data: &[u8]| {
    INIT.call_once(|| {
        probe::install_panic_hook();
        *SEEN.lock().unwrap() = Some(HashSet::new());
        // the request path prints a log line per request
        if std::env::var("VH_FUZZ_QUIET").is_ok() {
            unsafe {
                let devnull = std::ffi::CString::new("/dev/null").unwrap();
                let fd = libc_open(devnull.as_ptr(), 1);
                if fd >= 0 { libc_dup2(fd, 1); }
            }
        }
    });
    if data.is_empty() { return; }
    // VH_FUZZ_OPS=i,j,k restricts the dispatch to those entries of OPS
    let allowed: Vec<usize> = std::env::var("VH_FUZZ_OPS").ok().map(|v| v.split(',').filter_map(|x| x.parse().ok()).filter(|i| *i < OPS.len()).collect()).unwrap_or_default();
    let idx = if allowed.is_empty() { (data[0] as usize) % OPS.len() } else { allowed[(data[0] as usize) % allowed.len()] };
    let (op, shape) = OPS[idx];
    let f = fields(shape, &data[1..]);
    *probe::LAST_PANIC.lock().unwrap_or_else(|e| e.into_inner()) = None;
    // like the real workers: a named thread with the default 2 MiB stack (the request path unwraps the thread name;
    // libFuzzer's own thread has none)
    let r = std::thread::Builder::new().name("0".to_string()).stack_size(2 * 1024 * 1024)
        .spawn(move || std::panic::catch_unwind(std::panic::AssertUnwindSafe(|| probe::run_op(op, &f))))
        .expect("spawn").join().unwrap_or_else(|_| Ok(Err("thread".to_string())));
    let mut finding: Option<String> = None;
    match r {
        Err(_) => {
            let p = probe::LAST_PANIC.lock().unwrap_or_else(|e| e.into_inner()).clone().unwrap_or(("?".into(), "?".into(), 0));
            finding = Some(format!("panic\t{}\t{}\t{}\t{}", op, codec::hex(p.0.as_bytes()), codec::hex(p.1.as_bytes()), idx));
        }
        Ok(Ok(o)) => {
            if op == "serve" {
                // fields: result, n_writes, ...
                let n_writes = String::from_utf8_lossy(o.fields.get(1).map(|v| v.as_slice()).unwrap_or(b"0")).parse::<usize>().unwrap_or(0);
                if n_writes == 0 {
                    finding = Some(format!("noresponse\t{}\t-\t-\t{}", op, idx));
                }
            }
        }
        Ok(Err(_)) => {}
    }
    if let Some(f) = finding {
        // dedupe on everything but the input
        let key = f.clone();
        let mut seen = SEEN.lock().unwrap_or_else(|e| e.into_inner());
        if seen.as_mut().unwrap().insert(key) {
            if let Ok(path) = std::env::var("VH_FUZZ_FINDINGS") {
                if let Ok(mut fh) = std::fs::OpenOptions::new().create(true).append(true).open(path) {
                    // one write call per line: jobs of a -fork run append concurrently
                    let line = format!("{}\t{}\n", f, codec::hex(data));
                    let _ = fh.write_all(line.as_bytes());
                }
            }
        }
    }
});

extern "C" {
    #[link_name = "open"]
    fn libc_open(path: *const std::os::raw::c_char, flags: i32) -> i32;
    #[link_name = "dup2"]
    fn libc_dup2(a: i32, b: i32) -> i32;
}

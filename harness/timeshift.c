/* LD_PRELOAD shim used by the checks to move the clocks of a server process forward ("virtual time"): the number of
 * seconds in the file named by VF_TIMESHIFT_FILE is added to what clock_gettime / gettimeofday / time report.
 * The file is re-read at most every 5 ms of real time.  Development tooling of /verif, not part of rws. */
#define _GNU_SOURCE
#include <dlfcn.h>
#include <fcntl.h>
#include <stdlib.h>
#include <sys/time.h>
#include <time.h>
#include <unistd.h>

static int (*real_clock_gettime)(clockid_t, struct timespec *);
static long long cached_offset_s;
static long long last_read_ns = -1;

static long long offset_seconds(void) {
    struct timespec now;
    if (!real_clock_gettime)
        real_clock_gettime = (int (*)(clockid_t, struct timespec *))dlsym(RTLD_NEXT, "clock_gettime");
    real_clock_gettime(CLOCK_MONOTONIC, &now);
    long long t = (long long)now.tv_sec * 1000000000LL + now.tv_nsec;
    if (last_read_ns >= 0 && t - last_read_ns < 5000000LL)
        return cached_offset_s;
    last_read_ns = t;
    const char *p = getenv("VF_TIMESHIFT_FILE");
    if (!p)
        return cached_offset_s = 0;
    int fd = open(p, O_RDONLY | O_CLOEXEC);
    if (fd < 0)
        return cached_offset_s;
    char buf[32];
    ssize_t n = read(fd, buf, sizeof buf - 1);
    close(fd);
    if (n > 0) {
        buf[n] = 0;
        cached_offset_s = atoll(buf);
    }
    return cached_offset_s;
}

int clock_gettime(clockid_t c, struct timespec *ts) {
    long long off = offset_seconds();
    int r = real_clock_gettime(c, ts);
    if (r == 0 && (c == CLOCK_REALTIME || c == CLOCK_MONOTONIC || c == CLOCK_BOOTTIME || c == CLOCK_REALTIME_COARSE || c == CLOCK_MONOTONIC_COARSE || c == CLOCK_MONOTONIC_RAW))
        ts->tv_sec += off;
    return r;
}

int gettimeofday(struct timeval *tv, void *tz) {
    struct timespec ts;
    (void)tz;
    if (clock_gettime(CLOCK_REALTIME, &ts) != 0)
        return -1;
    if (tv) {
        tv->tv_sec = ts.tv_sec;
        tv->tv_usec = ts.tv_nsec / 1000;
    }
    return 0;
}

time_t time(time_t *t) {
    struct timespec ts;
    clock_gettime(CLOCK_REALTIME, &ts);
    if (t)
        *t = ts.tv_sec;
    return ts.tv_sec;
}

//! Scripted in-memory transport: `impl Read + Write + Unpin` driven by a script.

use std::io::{self, Read, Write};
use std::sync::{Arc, Mutex};

#[derive(Clone, Debug)]
pub enum ReadScript {
    Ok,
    Err,
}

#[derive(Clone, Debug)]
pub enum WriteScript {
    /// accept everything in one call
    All,
    /// accept at most k bytes per call
    Chunk(usize),
    /// first call accepts j bytes, later calls accept everything
    First(usize),
    /// accept everything until `k` bytes have been accepted in total, then return an error
    ErrAt(usize),
}

#[derive(Default, Debug)]
pub struct Record {
    pub reads: usize,
    pub writes: Vec<(usize, isize)>, // (offered, accepted | -1 for Err)
    pub accepted: Vec<u8>,
    pub flushes: usize,
}

pub struct Scripted {
    pub request: Vec<u8>,
    pub read_pos: usize,
    pub read_script: ReadScript,
    pub write_script: WriteScript,
    pub flush_err: bool,
    pub rec: Arc<Mutex<Record>>,
}

impl Scripted {
    pub fn new(request: Vec<u8>, r: ReadScript, w: WriteScript, flush_err: bool) -> (Scripted, Arc<Mutex<Record>>) {
        let rec = Arc::new(Mutex::new(Record::default()));
        (
            Scripted { request, read_pos: 0, read_script: r, write_script: w, flush_err, rec: rec.clone() },
            rec,
        )
    }
}

impl Read for Scripted {
    fn read(&mut self, buf: &mut [u8]) -> io::Result<usize> {
        self.rec.lock().unwrap().reads += 1;
        match self.read_script {
            ReadScript::Err => Err(io::Error::new(io::ErrorKind::ConnectionReset, "scripted read error")),
            ReadScript::Ok => {
                let left = &self.request[self.read_pos..];
                let n = left.len().min(buf.len());
                buf[..n].copy_from_slice(&left[..n]);
                self.read_pos += n;
                Ok(n)
            }
        }
    }
}

impl Write for Scripted {
    fn write(&mut self, buf: &[u8]) -> io::Result<usize> {
        let mut rec = self.rec.lock().unwrap();
        let calls = rec.writes.len();
        let total = rec.accepted.len();
        let n = match self.write_script {
            WriteScript::All => buf.len(),
            WriteScript::Chunk(k) => buf.len().min(k.max(1)),
            WriteScript::First(j) => {
                if calls == 0 {
                    buf.len().min(j.max(1))
                } else {
                    buf.len()
                }
            }
            WriteScript::ErrAt(k) => {
                if total >= k {
                    rec.writes.push((buf.len(), -1));
                    return Err(io::Error::new(io::ErrorKind::BrokenPipe, "scripted write error"));
                }
                buf.len().min(k - total)
            }
        };
        rec.writes.push((buf.len(), n as isize));
        rec.accepted.extend_from_slice(&buf[..n]);
        Ok(n)
    }

    fn flush(&mut self) -> io::Result<()> {
        self.rec.lock().unwrap().flushes += 1;
        if self.flush_err {
            Err(io::Error::new(io::ErrorKind::BrokenPipe, "scripted flush error"))
        } else {
            Ok(())
        }
    }
}

pub fn parse_write_script(s: &str) -> WriteScript {
    if let Some(k) = s.strip_prefix("chunk:") {
        return WriteScript::Chunk(k.parse().unwrap_or(1));
    }
    if let Some(k) = s.strip_prefix("first:") {
        return WriteScript::First(k.parse().unwrap_or(1));
    }
    if let Some(k) = s.strip_prefix("err:") {
        return WriteScript::ErrAt(k.parse().unwrap_or(0));
    }
    WriteScript::All
}

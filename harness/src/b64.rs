//! `vh b64 sweep <stride> <offset> <threads>`: C18 sweep over all inputs of length 0..3 against a
//! table-free arithmetic reference encoder (independent of the repository's table).
//! Prints `SWEEP groups=<n> mismatches=<m>` and up to 20 `MISMATCH <hex input> <got> <want>` lines,
//! plus `SAMPLE <hex> <text>` lines every 65521st group so Python can cross-check with its own base64.

use rws::core::base64::Base64;
use std::sync::atomic::{AtomicU64, Ordering};
use std::sync::{Arc, Mutex};

fn sextet_char(v: u8) -> char {
    // arithmetic mapping, no table
    match v {
        0..=25 => (b'A' + v) as char,
        26..=51 => (b'a' + (v - 26)) as char,
        52..=61 => (b'0' + (v - 52)) as char,
        62 => '+',
        _ => '/',
    }
}

pub fn reference_encode(b: &[u8]) -> String {
    let mut s = String::new();
    for chunk in b.chunks(3) {
        let n = chunk.len();
        let v: u32 = ((chunk[0] as u32) << 16) | ((*chunk.get(1).unwrap_or(&0) as u32) << 8) | (*chunk.get(2).unwrap_or(&0) as u32);
        s.push(sextet_char(((v >> 18) & 63) as u8));
        s.push(sextet_char(((v >> 12) & 63) as u8));
        if n > 1 { s.push(sextet_char(((v >> 6) & 63) as u8)); } else { s.push('='); }
        if n > 2 { s.push(sextet_char((v & 63) as u8)); } else { s.push('='); }
    }
    s
}

fn hexs(b: &[u8]) -> String {
    b.iter().map(|x| format!("{:02x}", x)).collect::<String>()
}

fn check(input: &[u8], mism: &Mutex<Vec<String>>, nm: &AtomicU64) {
    let want = reference_encode(input);
    let mut bad = |got: String, what: &str| {
        nm.fetch_add(1, Ordering::Relaxed);
        let mut m = mism.lock().unwrap();
        if m.len() < 20 {
            m.push(format!("MISMATCH {} {} {} {}", what, if input.is_empty() { "-".to_string() } else { hexs(input) }, got, want));
        }
    };
    match std::panic::catch_unwind(|| Base64::encode(input)) {
        Ok(Ok(got)) => {
            if got != want {
                bad(got, "encode");
                return;
            }
            match std::panic::catch_unwind(|| Base64::decode(got)) {
                Ok(Ok(back)) => {
                    if back != input {
                        bad(hexs(&back), "decode");
                    }
                }
                Ok(Err(e)) => bad(format!("Err({})", e.replace(' ', "_")), "decode"),
                Err(_) => bad("PANIC".to_string(), "decode"),
            }
        }
        Ok(Err(e)) => bad(format!("Err({})", e.replace(' ', "_")), "encode"),
        Err(_) => bad("PANIC".to_string(), "encode"),
    }
}

pub fn run(args: &[String]) {
    std::panic::set_hook(Box::new(|_| {}));
    let stride: u64 = args.get(1).and_then(|s| s.parse().ok()).unwrap_or(1).max(1);
    let offset: u64 = args.get(2).and_then(|s| s.parse().ok()).unwrap_or(0) % stride;
    let threads: u64 = args.get(3).and_then(|s| s.parse().ok()).unwrap_or(16).max(1);
    let mism = Arc::new(Mutex::new(Vec::<String>::new()));
    let nm = Arc::new(AtomicU64::new(0));
    let groups = Arc::new(AtomicU64::new(0));
    // lengths 0, 1, 2: always complete
    check(&[], &mism, &nm);
    groups.fetch_add(1, Ordering::Relaxed);
    for a in 0..=255u8 {
        check(&[a], &mism, &nm);
        groups.fetch_add(1, Ordering::Relaxed);
        for b in 0..=255u8 {
            check(&[a, b], &mism, &nm);
            groups.fetch_add(1, Ordering::Relaxed);
        }
    }
    let samples = Arc::new(Mutex::new(Vec::<String>::new()));
    let mut hs = vec![];
    for t in 0..threads {
        let (mism, nm, groups, samples) = (mism.clone(), nm.clone(), groups.clone(), samples.clone());
        hs.push(std::thread::spawn(move || {
            let mut v = offset + t * stride;
            let step = stride * threads;
            let mut local = 0u64;
            while v < (1u64 << 24) {
                let input = [(v >> 16) as u8, (v >> 8) as u8, v as u8];
                check(&input, &mism, &nm);
                local += 1;
                if v % 65521 == 0 {
                    if let Ok(Ok(s)) = std::panic::catch_unwind(|| Base64::encode(&input)) {
                        samples.lock().unwrap().push(format!("SAMPLE {} {}", hexs(&input), s));
                    }
                }
                v += step;
            }
            groups.fetch_add(local, Ordering::Relaxed);
        }));
    }
    for h in hs {
        let _ = h.join();
    }
    for s in samples.lock().unwrap().iter() {
        println!("{}", s);
    }
    for m in mism.lock().unwrap().iter() {
        println!("{}", m);
    }
    println!("SWEEP groups={} mismatches={} stride={} offset={}", groups.load(Ordering::Relaxed), nm.load(Ordering::Relaxed), stride, offset);
}

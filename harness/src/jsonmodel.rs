//! C19: a family of structs implementing the library's New / ToJSON / FromJSON traits in the
//! pattern of the repository's examples. Values travel as a token stream (see `Tokens`).

use rws::core::New;
use rws::json::array::boolean::JSONArrayOfBooleans;
use rws::json::array::float::JSONArrayOfFloats;
use rws::json::array::integer::JSONArrayOfIntegers;
use rws::json::array::null::JSONArrayOfNulls;
use rws::json::array::object::JSONArrayOfObjects;
use rws::json::array::string::JSONArrayOfStrings;
use rws::json::object::{FromJSON, ToJSON, JSON};
use rws::json::property::{JSONProperty, JSONValue};
use rws::json::JSON_TYPE;
use rws::null::{Null, NULL};

pub struct Tokens<'a> {
    pub t: &'a [Vec<u8>],
    pub pos: usize,
}

impl<'a> Tokens<'a> {
    pub fn s(&mut self) -> String {
        let v = self.t.get(self.pos).cloned().unwrap_or_default();
        self.pos += 1;
        String::from_utf8_lossy(&v).to_string()
    }
    pub fn n(&mut self) -> usize {
        self.s().parse().unwrap_or(0)
    }
}

pub trait Model: Sized {
    fn build(t: &mut Tokens) -> Self;
    fn flatten(&self, out: &mut Vec<Vec<u8>>);
}

fn push(out: &mut Vec<Vec<u8>>, s: &str) {
    out.push(s.as_bytes().to_vec());
}

/// Placeholder child of the deepest level: no properties.
pub struct Nil;
impl New for Nil {
    fn new() -> Self {
        Nil
    }
}
impl ToJSON for Nil {
    fn list_properties() -> Vec<JSONProperty> {
        vec![]
    }
    fn get_property(&self, _n: String) -> JSONValue {
        JSONValue::new()
    }
    fn to_json_string(&self) -> String {
        JSON::to_json_string(vec![])
    }
}
impl FromJSON for Nil {
    fn parse_json_to_properties(&self, json_string: String) -> Result<Vec<(JSONProperty, JSONValue)>, String> {
        JSON::parse_as_properties(json_string)
    }
    fn set_properties(&mut self, _p: Vec<(JSONProperty, JSONValue)>) -> Result<(), String> {
        Ok(())
    }
    fn parse(&mut self, json_string: String) -> Result<(), String> {
        self.parse_json_to_properties(json_string).map(|_| ())
    }
}
impl Model for Nil {
    fn build(t: &mut Tokens) -> Self {
        let _ = t.n();
        Nil
    }
    fn flatten(&self, out: &mut Vec<Vec<u8>>) {
        push(out, "0");
    }
}

macro_rules! int_lists {
    ($m:ident) => {
        $m!(li8, i8, "l_i8", parse_as_list_i8, to_json_from_list_i8);
        $m!(li16, i16, "l_i16", parse_as_list_i16, to_json_from_list_i16);
        $m!(li32, i32, "l_i32", parse_as_list_i32, to_json_from_list_i32);
        $m!(li64, i64, "l_i64", parse_as_list_i64, to_json_from_list_i64);
        $m!(li128, i128, "l_i128", parse_as_list_i128, to_json_from_list_i128);
        $m!(lu8, u8, "l_u8", parse_as_list_u8, to_json_from_list_u8);
        $m!(lu16, u16, "l_u16", parse_as_list_u16, to_json_from_list_u16);
        $m!(lu32, u32, "l_u32", parse_as_list_u32, to_json_from_list_u32);
        $m!(lu64, u64, "l_u64", parse_as_list_u64, to_json_from_list_u64);
        $m!(lu128, u128, "l_u128", parse_as_list_u128, to_json_from_list_u128);
    };
}

macro_rules! define_node {
    ($name:ident, $child:ty) => {
        pub struct $name {
            pub s: Option<String>,
            pub s2: Option<String>,
            pub b: Option<bool>,
            pub b2: Option<bool>,
            pub i: Option<i128>,
            pub i2: Option<i128>,
            pub f: Option<f64>,
            pub f2: Option<f64>,
            pub o: Option<$child>,
            pub a: Option<Vec<$child>>,
            pub ls: Option<Vec<String>>,
            pub lb: Option<Vec<bool>>,
            pub li8: Option<Vec<i8>>,
            pub li16: Option<Vec<i16>>,
            pub li32: Option<Vec<i32>>,
            pub li64: Option<Vec<i64>>,
            pub li128: Option<Vec<i128>>,
            pub lu8: Option<Vec<u8>>,
            pub lu16: Option<Vec<u16>>,
            pub lu32: Option<Vec<u32>>,
            pub lu64: Option<Vec<u64>>,
            pub lu128: Option<Vec<u128>>,
            pub lf32: Option<Vec<f32>>,
            pub lf64: Option<Vec<f64>>,
            pub ln: Option<usize>,
        }

        impl New for $name {
            fn new() -> Self {
                $name {
                    s: None, s2: None, b: None, b2: None, i: None, i2: None, f: None, f2: None,
                    o: None, a: None, ls: None, lb: None,
                    li8: None, li16: None, li32: None, li64: None, li128: None,
                    lu8: None, lu16: None, lu32: None, lu64: None, lu128: None,
                    lf32: None, lf64: None, ln: None,
                }
            }
        }

        impl ToJSON for $name {
            fn list_properties() -> Vec<JSONProperty> {
                let mut list = vec![];
                let mut p = |n: &str, t: &str| list.push(JSONProperty { property_name: n.to_string(), property_type: t.to_string() });
                p("s", JSON_TYPE.string);
                p("b", JSON_TYPE.boolean);
                p("i", JSON_TYPE.integer);
                p("f", JSON_TYPE.number);
                p("o", JSON_TYPE.object);
                p("a", JSON_TYPE.array);
                p("s2", JSON_TYPE.string);
                p("b2", JSON_TYPE.boolean);
                p("i2", JSON_TYPE.integer);
                p("f2", JSON_TYPE.number);
                for n in ["ls", "lb", "li8", "li16", "li32", "li64", "li128", "lu8", "lu16", "lu32", "lu64", "lu128", "lf32", "lf64", "ln"] {
                    p(n, JSON_TYPE.array);
                }
                list
            }

            fn get_property(&self, property_name: String) -> JSONValue {
                let mut value = JSONValue::new();
                match property_name.as_str() {
                    "s" => value.string = self.s.clone(),
                    "s2" => value.string = self.s2.clone(),
                    "b" => value.bool = self.b,
                    "b2" => value.bool = self.b2,
                    "i" => value.i128 = self.i,
                    "i2" => value.i128 = self.i2,
                    "f" => value.f64 = self.f,
                    "f2" => value.f64 = self.f2,
                    "o" => {
                        if let Some(o) = &self.o {
                            value.object = Some(o.to_json_string());
                        }
                    }
                    "a" => {
                        if let Some(a) = &self.a {
                            if let Ok(json) = JSONArrayOfObjects::<$child>::to_json(a) {
                                value.array = Some(json);
                            }
                        }
                    }
                    "ls" => {
                        if let Some(l) = &self.ls {
                            value.array = JSONArrayOfStrings::to_json_from_list_string(l).ok();
                        }
                    }
                    "lb" => {
                        if let Some(l) = &self.lb {
                            value.array = JSONArrayOfBooleans::to_json_from_list_bool(l).ok();
                        }
                    }
                    "lf32" => {
                        if let Some(l) = &self.lf32 {
                            value.array = JSONArrayOfFloats::to_json_from_list_f32(l).ok();
                        }
                    }
                    "lf64" => {
                        if let Some(l) = &self.lf64 {
                            value.array = JSONArrayOfFloats::to_json_from_list_f64(l).ok();
                        }
                    }
                    "ln" => {
                        if let Some(n) = self.ln {
                            let v: Vec<&Null> = (0..n).map(|_| NULL).collect();
                            value.array = JSONArrayOfNulls::to_json_from_list_null(&v).ok();
                        }
                    }
                    _ => {}
                }
                macro_rules! get_int_list {
                    ($field:ident, $t:ty, $kind:expr, $parse:ident, $tojson:ident) => {
                        if property_name == stringify!($field) {
                            if let Some(l) = &self.$field {
                                value.array = JSONArrayOfIntegers::$tojson(l).ok();
                            }
                        }
                    };
                }
                int_lists!(get_int_list);
                value
            }

            fn to_json_string(&self) -> String {
                let mut processed_data = vec![];
                for property in $name::list_properties() {
                    let value = self.get_property(property.property_name.to_string());
                    processed_data.push((property, value));
                }
                JSON::to_json_string(processed_data)
            }
        }

        impl FromJSON for $name {
            fn parse_json_to_properties(&self, json_string: String) -> Result<Vec<(JSONProperty, JSONValue)>, String> {
                JSON::parse_as_properties(json_string)
            }

            fn set_properties(&mut self, properties: Vec<(JSONProperty, JSONValue)>) -> Result<(), String> {
                for (property, value) in properties {
                    let name = property.property_name.as_str();
                    // a float field may legitimately come back through the integer slot ("5" means 5.0)
                    let as_f64 = |v: &JSONValue| -> Option<f64> {
                        if v.f64.is_some() { v.f64 } else { v.i128.map(|x| x as f64) }
                    };
                    match name {
                        "s" => { if value.string.is_some() { self.s = value.string; } }
                        "s2" => { if value.string.is_some() { self.s2 = value.string; } }
                        "b" => { if value.bool.is_some() { self.b = value.bool; } }
                        "b2" => { if value.bool.is_some() { self.b2 = value.bool; } }
                        "i" => { if value.i128.is_some() { self.i = value.i128; } }
                        "i2" => { if value.i128.is_some() { self.i2 = value.i128; } }
                        "f" => { if let Some(x) = as_f64(&value) { self.f = Some(x); } }
                        "f2" => { if let Some(x) = as_f64(&value) { self.f2 = Some(x); } }
                        "o" => {
                            if let Some(text) = value.object {
                                let mut o = <$child>::new();
                                o.parse(text)?;
                                self.o = Some(o);
                            } else {
                                self.o = None;
                            }
                        }
                        "a" => {
                            if let Some(text) = value.array {
                                self.a = Some(JSONArrayOfObjects::<$child>::from_json(text)?);
                            }
                        }
                        "ls" => { if let Some(t) = value.array { self.ls = Some(JSONArrayOfStrings::parse_as_list_string(t)?); } }
                        "lb" => { if let Some(t) = value.array { self.lb = Some(JSONArrayOfBooleans::parse_as_list_bool(t)?); } }
                        "lf32" => { if let Some(t) = value.array { self.lf32 = Some(JSONArrayOfFloats::parse_as_list_f32(t)?); } }
                        "lf64" => { if let Some(t) = value.array { self.lf64 = Some(JSONArrayOfFloats::parse_as_list_f64(t)?); } }
                        "ln" => { if let Some(t) = value.array { self.ln = Some(JSONArrayOfNulls::parse_as_list_null(t)?.len()); } }
                        _ => {
                            macro_rules! set_int_list {
                                ($field:ident, $t:ty, $kind:expr, $parse:ident, $tojson:ident) => {
                                    if name == stringify!($field) {
                                        if let Some(t) = value.array {
                                            self.$field = Some(JSONArrayOfIntegers::$parse(t)?);
                                        }
                                        continue;
                                    }
                                };
                            }
                            int_lists!(set_int_list);
                        }
                    }
                }
                Ok(())
            }

            fn parse(&mut self, json_string: String) -> Result<(), String> {
                let properties = self.parse_json_to_properties(json_string)?;
                self.set_properties(properties)
            }
        }

        impl Model for $name {
            fn build(t: &mut Tokens) -> Self {
                let mut v = $name::new();
                let n = t.n();
                for _ in 0..n {
                    let name = t.s();
                    let kind = t.s();
                    match kind.as_str() {
                        "str" => { let x = t.s(); if name == "s" { v.s = Some(x) } else { v.s2 = Some(x) } }
                        "bool" => { let x = t.s() == "true"; if name == "b" { v.b = Some(x) } else { v.b2 = Some(x) } }
                        "int" => { let x = t.s().parse::<i128>().unwrap_or(0); if name == "i" { v.i = Some(x) } else { v.i2 = Some(x) } }
                        "f64" => { let x = f64::from_bits(u64::from_str_radix(&t.s(), 16).unwrap_or(0)); if name == "f" { v.f = Some(x) } else { v.f2 = Some(x) } }
                        "obj" => { v.o = Some(<$child>::build(t)); }
                        "arr" => { let m = t.n(); let mut l = vec![]; for _ in 0..m { l.push(<$child>::build(t)); } v.a = Some(l); }
                        "l_str" => { let m = t.n(); v.ls = Some((0..m).map(|_| t.s()).collect()); }
                        "l_bool" => { let m = t.n(); v.lb = Some((0..m).map(|_| t.s() == "true").collect()); }
                        "l_f32" => { let m = t.n(); v.lf32 = Some((0..m).map(|_| f32::from_bits(u32::from_str_radix(&t.s(), 16).unwrap_or(0))).collect()); }
                        "l_f64" => { let m = t.n(); v.lf64 = Some((0..m).map(|_| f64::from_bits(u64::from_str_radix(&t.s(), 16).unwrap_or(0))).collect()); }
                        "l_null" => { v.ln = Some(t.n()); }
                        _ => {
                            macro_rules! build_int_list {
                                ($field:ident, $t:ty, $kind:expr, $parse:ident, $tojson:ident) => {
                                    if kind == $kind {
                                        let m = t.n();
                                        v.$field = Some((0..m).map(|_| t.s().parse::<$t>().unwrap_or(0)).collect());
                                        continue;
                                    }
                                };
                            }
                            int_lists!(build_int_list);
                        }
                    }
                }
                v
            }

            fn flatten(&self, out: &mut Vec<Vec<u8>>) {
                let mut fields: Vec<Vec<Vec<u8>>> = vec![];
                macro_rules! field { ($n:expr, $k:expr, $body:expr) => {{ let mut f: Vec<Vec<u8>> = vec![]; push(&mut f, $n); push(&mut f, $k); $body(&mut f); fields.push(f); }}; }
                if let Some(x) = &self.s { field!("s", "str", |f: &mut Vec<Vec<u8>>| push(f, x)); }
                if let Some(x) = &self.b { field!("b", "bool", |f: &mut Vec<Vec<u8>>| push(f, &x.to_string())); }
                if let Some(x) = &self.i { field!("i", "int", |f: &mut Vec<Vec<u8>>| push(f, &x.to_string())); }
                if let Some(x) = &self.f { field!("f", "f64", |f: &mut Vec<Vec<u8>>| push(f, &format!("{:016x}", x.to_bits()))); }
                if let Some(x) = &self.o { field!("o", "obj", |f: &mut Vec<Vec<u8>>| x.flatten(f)); }
                if let Some(x) = &self.a { field!("a", "arr", |f: &mut Vec<Vec<u8>>| { push(f, &x.len().to_string()); for c in x { c.flatten(f); } }); }
                if let Some(x) = &self.s2 { field!("s2", "str", |f: &mut Vec<Vec<u8>>| push(f, x)); }
                if let Some(x) = &self.b2 { field!("b2", "bool", |f: &mut Vec<Vec<u8>>| push(f, &x.to_string())); }
                if let Some(x) = &self.i2 { field!("i2", "int", |f: &mut Vec<Vec<u8>>| push(f, &x.to_string())); }
                if let Some(x) = &self.f2 { field!("f2", "f64", |f: &mut Vec<Vec<u8>>| push(f, &format!("{:016x}", x.to_bits()))); }
                if let Some(x) = &self.ls { field!("ls", "l_str", |f: &mut Vec<Vec<u8>>| { push(f, &x.len().to_string()); for c in x { push(f, c); } }); }
                if let Some(x) = &self.lb { field!("lb", "l_bool", |f: &mut Vec<Vec<u8>>| { push(f, &x.len().to_string()); for c in x { push(f, &c.to_string()); } }); }
                macro_rules! flat_int_list {
                    ($field:ident, $t:ty, $kind:expr, $parse:ident, $tojson:ident) => {
                        if let Some(x) = &self.$field { field!(stringify!($field), $kind, |f: &mut Vec<Vec<u8>>| { push(f, &x.len().to_string()); for c in x { push(f, &c.to_string()); } }); }
                    };
                }
                int_lists!(flat_int_list);
                if let Some(x) = &self.lf32 { field!("lf32", "l_f32", |f: &mut Vec<Vec<u8>>| { push(f, &x.len().to_string()); for c in x { push(f, &format!("{:08x}", c.to_bits())); } }); }
                if let Some(x) = &self.lf64 { field!("lf64", "l_f64", |f: &mut Vec<Vec<u8>>| { push(f, &x.len().to_string()); for c in x { push(f, &format!("{:016x}", c.to_bits())); } }); }
                if let Some(x) = &self.ln { field!("ln", "l_null", |f: &mut Vec<Vec<u8>>| push(f, &x.to_string())); }
                push(out, &fields.len().to_string());
                for f in fields { out.extend(f); }
            }
        }
    };
}

define_node!(L0, L1);
define_node!(L1, L2);
define_node!(L2, L3);
define_node!(L3, Nil);

mod b64;
mod fsweep;
mod codec;
mod jsonmodel;
mod pool;
mod probe;
mod transport;

use std::io::Write;

fn on_named_thread<F: FnOnce() + Send + 'static>(f: F) {
    // request-path code unwraps thread::current().name(); workers of the real pool are named "0".."N-1"
    // and use the default 2 MiB stack, so stack exhaustion is reproduced faithfully
    let h = std::thread::Builder::new().name("0".to_string()).stack_size(2 * 1024 * 1024).spawn(f).expect("spawn");
    let _ = h.join();
}

fn main() {
    let args: Vec<String> = std::env::args().collect();
    let cmd = args.get(1).map(|s| s.as_str()).unwrap_or("");
    match cmd {
        "probe" => {
            probe::install_panic_hook();
            let (a, b, c) = (args[2].clone(), args[3].clone(), args[4].clone());
            on_named_thread(move || probe::run_file(&a, &b, &c));
        }
        "pool" => {
            probe::install_panic_hook();
            let n: usize = args[2].parse().expect("n");
            let wd: u64 = args.get(5).and_then(|s| s.parse().ok()).unwrap_or(10);
            pool::run(n, &args[3], &args[4], wd);
        }
        "srv" => {
            // the real accept loop (Server::run) and pool on a real socket, with an application that fails on demand:
            // vh srv <ip> <port> <workers>   (settings like the shipped binary: defaults, then environment)
            rws::entry_point::set_default_values();
            let n: usize = args[4].parse().expect("workers");
            let addr = if args[2].contains(':') { format!("[{}]:{}", args[2], args[3]) } else { format!("{}:{}", args[2], args[3]) };
            let listener = std::net::TcpListener::bind(addr.as_str()).expect("bind");
            let pool = rws::thread_pool::ThreadPool::new(n);
            println!("Spawned {} thread(s)", n);
            rws::server::Server::run(listener, pool, probe::MixedApp);
        }
        "coldrace" => {
            // vh coldrace <cases> <out> <threads>: concurrent FIRST use of the code under test in a fresh process
            probe::install_panic_hook();
            let n: usize = args[4].parse().expect("threads");
            probe::run_cold_race(&args[2], &args[3], n);
        }
        "fsweep" => {
            fsweep::run(&args[2..]);
        }
        "b64" => {
            b64::run(&args[2..]);
        }
        "cfgdump" => {
            // C12 observation A: exactly what Server::setup does before binding, then dump the settings.
            // The real argv of this process carries the CLI flags (the code reads env::args()).
            rws::entry_point::set_default_values();
            rws::entry_point::bootstrap();
            let out_path = std::env::var("VH_CFG_OUT").expect("VH_CFG_OUT");
            let mut o = std::fs::File::create(out_path).expect("create");
            for (k, v) in std::env::vars() {
                if k.starts_with("RWS_CONFIG_") {
                    let _ = writeln!(o, "ENV\t{}\t{}", k, codec::hex(v.as_bytes()));
                }
            }
            let (ip, port, threads) = rws::entry_point::get_ip_port_thread_count();
            let _ = writeln!(o, "IPT\t{}\t{}\t{}", codec::hex(ip.as_bytes()), port, threads);
            let _ = writeln!(o, "RAS\t{}", rws::entry_point::get_request_allocation_size());
        }
        _ => {
            eprintln!("usage: vh probe <cases> <obs> <journal> | pool <n> <spec> <out> [watchdog_s] | srv <ip> <port> <workers> | b64 ... | cfgdump");
            std::process::exit(2);
        }
    }
}

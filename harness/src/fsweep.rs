//! `vh fsweep <stride> <offset> <threads> [batch] [with_f64=1|0]`: C19 sweep over f32 bit patterns (every `stride`-th pattern starting at
//! `offset`; stride 1 = all 2^32): finite values are written with JSONArrayOfFloats::to_json_from_list_f32 in batches,
//! parsed back with parse_as_list_f32 and compared bit for bit (-0.0 and 0.0 compare equal, as JSON numbers do).
//! The same patterns widened to f64 go through the f64 list functions.
//! Prints `FSWEEP values=<n> mismatches=<m>` and up to 20 `FMISMATCH <f32|f64> <hex bits> <text> <hex bits read back>` lines.

use rws::json::array::float::JSONArrayOfFloats;
use std::sync::atomic::{AtomicU64, Ordering};
use std::sync::{Arc, Mutex};

fn same32(a: f32, b: f32) -> bool {
    a.to_bits() == b.to_bits() || (a == 0.0 && b == 0.0)
}

fn same64(a: f64, b: f64) -> bool {
    a.to_bits() == b.to_bits() || (a == 0.0 && b == 0.0)
}

pub fn run(args: &[String]) {
    let stride: u64 = args.get(0).and_then(|s| s.parse().ok()).unwrap_or(65537);
    let offset: u64 = args.get(1).and_then(|s| s.parse().ok()).unwrap_or(0);
    let threads: u64 = args.get(2).and_then(|s| s.parse().ok()).unwrap_or(16);
    let batch: usize = args.get(3).and_then(|s| s.parse().ok()).unwrap_or(64);
    let with_f64: bool = args.get(4).map(|s| s != "0").unwrap_or(true);
    let total = Arc::new(AtomicU64::new(0));
    let nm = Arc::new(AtomicU64::new(0));
    let mism: Arc<Mutex<Vec<String>>> = Arc::new(Mutex::new(vec![]));
    let mut hs = vec![];
    for t in 0..threads {
        let (total, nm, mism) = (total.clone(), nm.clone(), mism.clone());
        hs.push(std::thread::Builder::new().name(t.to_string()).spawn(move || {
            let mut cur32: Vec<f32> = Vec::with_capacity(batch);
            let mut flush = |cur: &mut Vec<f32>| {
                if cur.is_empty() {
                    return;
                }
                total.fetch_add(cur.len() as u64, Ordering::Relaxed);
                let mut report = |kind: &str, bits: String, text: &str, back: String| {
                    nm.fetch_add(1, Ordering::Relaxed);
                    let mut m = mism.lock().unwrap();
                    if m.len() < 20 {
                        m.push(format!("FMISMATCH {} {} {} {}", kind, bits, text.replace(' ', "_"), back));
                    }
                };
                // f32 list
                let r = std::panic::catch_unwind(|| {
                    let text = JSONArrayOfFloats::to_json_from_list_f32(&cur.clone())?;
                    let back = JSONArrayOfFloats::parse_as_list_f32(text.clone())?;
                    Ok::<(String, Vec<f32>), String>((text, back))
                });
                match r {
                    Ok(Ok((text, back))) => {
                        if back.len() != cur.len() {
                            report("f32", format!("{:08x}", cur[0].to_bits()), &text[..text.len().min(60)], format!("len{}", back.len()));
                        } else {
                            for (a, b) in cur.iter().zip(back.iter()) {
                                if !same32(*a, *b) {
                                    report("f32", format!("{:08x}", a.to_bits()), &format!("{:?}", a), format!("{:08x}", b.to_bits()));
                                }
                            }
                        }
                    }
                    Ok(Err(e)) => report("f32", format!("{:08x}", cur[0].to_bits()), &e, "Err".to_string()),
                    Err(_) => report("f32", format!("{:08x}", cur[0].to_bits()), "-", "PANIC".to_string()),
                }
                if !with_f64 {
                    cur.clear();
                    return;
                }
                // the same values as f64 (exactly representable), through the f64 functions
                let wide: Vec<f64> = cur.iter().map(|x| *x as f64).collect();
                let r = std::panic::catch_unwind(|| {
                    let text = JSONArrayOfFloats::to_json_from_list_f64(&wide.clone())?;
                    let back = JSONArrayOfFloats::parse_as_list_f64(text.clone())?;
                    Ok::<(String, Vec<f64>), String>((text, back))
                });
                match r {
                    Ok(Ok((text, back))) => {
                        if back.len() != wide.len() {
                            report("f64", format!("{:016x}", wide[0].to_bits()), &text[..text.len().min(60)], format!("len{}", back.len()));
                        } else {
                            for (a, b) in wide.iter().zip(back.iter()) {
                                if !same64(*a, *b) {
                                    report("f64", format!("{:016x}", a.to_bits()), &format!("{:?}", a), format!("{:016x}", b.to_bits()));
                                }
                            }
                        }
                    }
                    Ok(Err(e)) => report("f64", format!("{:016x}", wide[0].to_bits()), &e, "Err".to_string()),
                    Err(_) => report("f64", format!("{:016x}", wide[0].to_bits()), "-", "PANIC".to_string()),
                }
                cur.clear();
            };
            let mut i: u64 = offset + t * stride;
            while i < (1u64 << 32) {
                let v = f32::from_bits(i as u32);
                if v.is_finite() {
                    cur32.push(v);
                    if cur32.len() >= batch {
                        flush(&mut cur32);
                    }
                }
                i += stride * threads;
            }
            flush(&mut cur32);
        }).expect("spawn"));
    }
    for h in hs {
        let _ = h.join();
    }
    for l in mism.lock().unwrap().iter() {
        println!("{}", l);
    }
    println!("FSWEEP values={} mismatches={}", total.load(Ordering::Relaxed), nm.load(Ordering::Relaxed));
}

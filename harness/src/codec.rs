//! Tab-separated, hex-encoded case / observation lines (see DESIGN.md Appendix A).

pub fn hex(b: &[u8]) -> String {
    const T: &[u8; 16] = b"0123456789abcdef";
    let mut s = String::with_capacity(b.len() * 2 + 1);
    if b.is_empty() {
        s.push('-');
        return s;
    }
    for x in b {
        s.push(T[(x >> 4) as usize] as char);
        s.push(T[(x & 15) as usize] as char);
    }
    s
}

pub fn unhex(s: &str) -> Vec<u8> {
    if s == "-" {
        return vec![];
    }
    let b = s.as_bytes();
    let mut out = Vec::with_capacity(b.len() / 2);
    let v = |c: u8| -> u8 {
        match c {
            b'0'..=b'9' => c - b'0',
            b'a'..=b'f' => c - b'a' + 10,
            b'A'..=b'F' => c - b'A' + 10,
            _ => 0,
        }
    };
    let mut i = 0;
    while i + 1 < b.len() {
        out.push((v(b[i]) << 4) | v(b[i + 1]));
        i += 2;
    }
    out
}

pub struct Case {
    pub id: String,
    pub op: String,
    pub fields: Vec<Vec<u8>>,
}

impl Case {
    pub fn parse(line: &str) -> Option<Case> {
        let mut it = line.trim_end_matches('\n').split('\t');
        let id = it.next()?.to_string();
        let op = it.next()?.to_string();
        let fields = it.map(unhex).collect();
        Some(Case { id, op, fields })
    }
}

/// Sequential reader over the fields of a case.
pub struct Fields<'a> {
    f: &'a [Vec<u8>],
    pos: usize,
}

impl<'a> Fields<'a> {
    pub fn new(f: &'a [Vec<u8>]) -> Fields<'a> {
        Fields { f, pos: 0 }
    }
    pub fn bytes(&mut self) -> Vec<u8> {
        let v = self.f.get(self.pos).cloned().unwrap_or_default();
        self.pos += 1;
        v
    }
    pub fn string(&mut self) -> String {
        String::from_utf8_lossy(&self.bytes()).to_string()
    }
    pub fn num(&mut self) -> i128 {
        self.string().trim().parse::<i128>().unwrap_or(0)
    }
    pub fn left(&self) -> usize {
        self.f.len().saturating_sub(self.pos)
    }
}

/// Output builder.
pub struct Out {
    pub fields: Vec<Vec<u8>>,
}

impl Out {
    pub fn new() -> Out {
        Out { fields: vec![] }
    }
    pub fn b(&mut self, v: &[u8]) -> &mut Out {
        self.fields.push(v.to_vec());
        self
    }
    pub fn s(&mut self, v: &str) -> &mut Out {
        self.fields.push(v.as_bytes().to_vec());
        self
    }
    pub fn n<T: std::fmt::Display>(&mut self, v: T) -> &mut Out {
        self.fields.push(v.to_string().into_bytes());
        self
    }
}

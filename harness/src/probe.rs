//! `vh probe`: executes cases against library entry points and records raw observations.
//! No judgement happens here (DESIGN.md 2.1) - all oracles live in Python.

use std::collections::HashMap;
use std::io::{Cursor, Write};
use std::net::{IpAddr, Ipv4Addr, SocketAddr};
use std::panic::{catch_unwind, AssertUnwindSafe};
use std::sync::Mutex;
use std::time::Instant;

use rws::app::App;
use rws::application::Application;
use rws::body::form_urlencoded::FormUrlEncoded;
use rws::body::multipart_form_data::{FormMultipartData, Part};
use rws::core::base64::Base64;
use rws::core::New;
use rws::cors::Cors;
use rws::entry_point::config_file::read_config_file;
use rws::header::content_disposition::ContentDisposition;
use rws::header::Header;
use rws::json::array::boolean::JSONArrayOfBooleans;
use rws::json::array::float::JSONArrayOfFloats;
use rws::json::array::integer::JSONArrayOfIntegers;
use rws::json::array::null::JSONArrayOfNulls;
use rws::json::array::object::JSONArrayOfObjects;
use rws::json::array::string::JSONArrayOfStrings;
use rws::json::array::RawUnprocessedJSONArray;
use rws::json::object::{FromJSON, ToJSON, JSON};
use rws::json::property::JSONProperty;
use rws::mime_type::MimeType;
use rws::range::{ContentRange, Range};
use rws::request::Request;
use rws::response::{Response, STATUS_CODE_REASON_PHRASE};
use rws::server::{Address, ConnectionInfo, Server};
use rws::url::path::UrlPath;
use rws::url::URL;

use crate::codec::{hex, Case, Fields, Out};
use crate::jsonmodel::{Model, Tokens, L0, L1};
use crate::transport::{parse_write_script, ReadScript, Scripted};

pub static LAST_PANIC: Mutex<Option<(String, String, u32)>> = Mutex::new(None);
/// every panic seen by the hook: (thread name, message, "file|function")
pub static PANICS: Mutex<Vec<(String, String, String)>> = Mutex::new(Vec::new());
/// transport record of the serve case in flight, so that a panicking case still reports what was written
pub static LAST_SERVE: Mutex<Option<std::sync::Arc<Mutex<crate::transport::Record>>>> = Mutex::new(None);

pub fn install_panic_hook() {
    std::panic::set_hook(Box::new(|info| {
        let msg = if let Some(s) = info.payload().downcast_ref::<&str>() {
            s.to_string()
        } else if let Some(s) = info.payload().downcast_ref::<String>() {
            s.clone()
        } else {
            "non-string panic payload".to_string()
        };
        let (file, line) = info.location().map(|l| (l.file().to_string(), l.line())).unwrap_or(("?".to_string(), 0));
        // innermost frame that belongs to the code under test (crate `rws` or one of its dependencies):
        // names the function whose unwrap / index / arithmetic failed, so that signatures do not need line numbers
        let bt = std::backtrace::Backtrace::force_capture().to_string();
        let mut func = "?".to_string();
        for l in bt.lines() {
            let t = l.trim();
            if let Some(pos) = t.find(": ") {
                let name = &t[pos + 2..];
                if name.starts_with("rws::") || name.starts_with("<rws::") || name.starts_with("file_ext::") || name.starts_with("url_build_parse::") || name.starts_with("url_search_params::") {
                    if name.contains("verif_hooks") { continue; }
                    func = name.split("::h").next().unwrap_or(name).to_string();
                    // strip the trailing hash if present
                    if let Some(i) = name.rfind("::h") { if name.len() - i == 19 { func = name[..i].to_string(); } }
                    break;
                }
            }
        }
        let thread = std::thread::current().name().unwrap_or("?").to_string();
        PANICS.lock().unwrap_or_else(|e| e.into_inner()).push((thread, msg.clone(), format!("{}|{}", file, func)));
        *LAST_PANIC.lock().unwrap_or_else(|e| e.into_inner()) = Some((msg, format!("{}|{}", file, func), line));
    }));
}

#[derive(Copy, Clone)]
pub struct ErrApp;
impl New for ErrApp {
    fn new() -> Self {
        ErrApp
    }
}
impl Application for ErrApp {
    fn execute(&self, _request: &Request, _connection: &ConnectionInfo) -> Result<Response, String> {
        Err("handler reported an error".to_string())
    }
}

#[derive(Copy, Clone)]
pub struct OkApp;
impl New for OkApp {
    fn new() -> Self {
        OkApp
    }
}
impl Application for OkApp {
    fn execute(&self, request: &Request, _connection: &ConnectionInfo) -> Result<Response, String> {
        let header_list = Header::get_header_list(request);
        let cr = Range::get_content_range(b"canned body".to_vec(), MimeType::TEXT_PLAIN.to_string());
        Ok(Response::get_response(STATUS_CODE_REASON_PHRASE.n200_ok, Some(header_list), Some(vec![cr])))
    }
}

/// The real application, except that the request itself can ask for a failure inside request handling: a target that
/// contains `__panic` makes the handler panic (`__panic_long`: with a long multi-byte message, `__panic_any`: with a
/// non-string payload), `__err` makes it return Err, `__slow` makes it take 300 ms.
#[derive(Copy, Clone)]
pub struct MixedApp;
impl New for MixedApp {
    fn new() -> Self {
        MixedApp
    }
}
impl Application for MixedApp {
    fn execute(&self, request: &Request, connection: &ConnectionInfo) -> Result<Response, String> {
        let t = request.request_uri.as_str();
        if t.contains("__panic_long") {
            panic!("x{} handler failed for {}", "\u{e9}\u{20ac}".repeat(200), t);
        }
        if t.contains("__panic_any") {
            std::panic::panic_any(7usize);
        }
        if t.contains("__panic") {
            panic!("handler failed on purpose");
        }
        if t.contains("__err") {
            return Err("handler reported an error".to_string());
        }
        if t.contains("__slow") {
            std::thread::sleep(std::time::Duration::from_millis(300));
        }
        rws::app::App::new().execute(request, connection)
    }
}

pub fn conn_info(request_size: i64) -> ConnectionInfo {
    ConnectionInfo {
        client: Address { ip: "127.0.0.1".to_string(), port: 40000 },
        server: Address { ip: "127.0.0.1".to_string(), port: 7878 },
        request_size,
    }
}

fn flat_request(o: &mut Out, r: &Request) {
    o.s(&r.method).s(&r.request_uri).s(&r.http_version).n(r.headers.len());
    for h in &r.headers {
        o.s(&h.name).s(&h.value);
    }
    o.b(&r.body);
}

fn flat_response(o: &mut Out, r: &Response) {
    o.s(&r.http_version).n(r.status_code).s(&r.reason_phrase).n(r.headers.len());
    for h in &r.headers {
        o.s(&h.name).s(&h.value);
    }
    flat_ranges(o, &r.content_range_list);
}

fn flat_ranges(o: &mut Out, l: &[ContentRange]) {
    o.n(l.len());
    for c in l {
        o.s(&c.unit).n(c.range.start).n(c.range.end).s(&c.size).s(&c.content_type).b(&c.body);
    }
}

fn flat_parts(o: &mut Out, parts: &[Part]) {
    o.n(parts.len());
    for p in parts {
        o.n(p.headers.len());
        for h in &p.headers {
            o.s(&h.name).s(&h.value);
        }
        o.b(&p.body);
    }
}

fn flat_map(o: &mut Out, m: &HashMap<String, String>) {
    let mut keys: Vec<&String> = m.keys().collect();
    keys.sort();
    o.n(keys.len());
    for k in keys {
        o.s(k).s(&m[k]);
    }
}

fn read_headers(f: &mut Fields) -> Vec<Header> {
    let n = f.num() as usize;
    (0..n).map(|_| Header { name: f.string(), value: f.string() }).collect()
}

fn read_request(f: &mut Fields) -> Request {
    let method = f.string();
    let request_uri = f.string();
    let http_version = f.string();
    let headers = read_headers(f);
    let body = f.bytes();
    Request { method, request_uri, http_version, headers, body }
}

fn read_ranges(f: &mut Fields) -> Vec<ContentRange> {
    let n = f.num() as usize;
    (0..n)
        .map(|_| {
            let unit = f.string();
            let start = f.num() as u64;
            let end = f.num() as u64;
            let size = f.string();
            let content_type = f.string();
            let body = f.bytes();
            ContentRange { unit, range: Range { start, end }, size, body, content_type }
        })
        .collect()
}

fn read_response(f: &mut Fields) -> Response {
    let http_version = f.string();
    let status_code = f.num() as i16;
    let reason_phrase = f.string();
    let headers = read_headers(f);
    let content_range_list = read_ranges(f);
    Response { http_version, status_code, reason_phrase, headers, content_range_list }
}

fn read_parts(f: &mut Fields) -> Vec<Part> {
    let n = f.num() as usize;
    (0..n)
        .map(|_| {
            let headers = read_headers(f);
            let body = f.bytes();
            Part { headers, body }
        })
        .collect()
}

fn read_map(f: &mut Fields) -> HashMap<String, String> {
    let n = f.num() as usize;
    let mut m = HashMap::new();
    for _ in 0..n {
        let k = f.string();
        let v = f.string();
        m.insert(k, v);
    }
    m
}

/// Outcome of an op: Ok(fields) or Err(text) for a library-level Err.
type OpResult = Result<Out, String>;

fn res<T, E: ToString>(r: Result<T, E>, f: impl FnOnce(&mut Out, T)) -> OpResult {
    match r {
        Ok(v) => {
            let mut o = Out::new();
            f(&mut o, v);
            Ok(o)
        }
        Err(e) => Err(e.to_string()),
    }
}

pub fn serve(f: &mut Fields) -> OpResult {
    let entry = f.string();
    let handler = f.string();
    let request_size = f.num() as i64;
    let read_script = if f.string() == "err" { ReadScript::Err } else { ReadScript::Ok };
    let write_script = parse_write_script(&f.string());
    let flush_err = f.string() == "err";
    let request = f.bytes();
    let (stream, rec) = Scripted::new(request, read_script, write_script, flush_err);
    *LAST_SERVE.lock().unwrap_or_else(|e| e.into_inner()) = Some(rec.clone());
    let result: String = if entry == "legacy" {
        let peer = SocketAddr::new(IpAddr::V4(Ipv4Addr::new(127, 0, 0, 1)), 40000);
        let raw = Server::process_request(stream, peer);
        format!("ret:{}", raw.len())
    } else {
        let c = conn_info(request_size);
        let r = match handler.as_str() {
            "err" => Server::process(stream, c, ErrApp::new()),
            "ok" => Server::process(stream, c, OkApp::new()),
            _ => Server::process(stream, c, App::new()),
        };
        match r {
            Ok(()) => "ok".to_string(),
            Err(e) => format!("err:{}", e),
        }
    };
    let rec = rec.lock().unwrap();
    let mut o = Out::new();
    o.s(&result).n(rec.writes.len());
    let w: Vec<String> = rec.writes.iter().map(|(a, b)| format!("{}:{}", a, b)).collect();
    o.s(&w.join(";")).b(&rec.accepted).n(rec.flushes).n(rec.reads);
    Ok(o)
}

/// Same as `serve` but used after a panic: returns what the transport saw so far.
pub fn json_model_roundtrip(f: &mut Fields, level: usize) -> OpResult {
    let toks: Vec<Vec<u8>> = {
        let mut v = vec![];
        while f.left() > 0 {
            v.push(f.bytes());
        }
        v
    };
    let mut t = Tokens { t: &toks, pos: 0 };
    let mut o = Out::new();
    macro_rules! go {
        ($ty:ty) => {{
            let value = <$ty>::build(&mut t);
            let text = value.to_json_string();
            o.s(&text);
            let mut back = <$ty>::new();
            match back.parse(text) {
                Ok(()) => {
                    o.s("parsed");
                    let mut flat = vec![];
                    back.flatten(&mut flat);
                    for x in flat {
                        o.b(&x);
                    }
                }
                Err(e) => {
                    o.s("parse-error").s(&e);
                }
            }
        }};
    }
    if level == 1 {
        go!(L1)
    } else {
        go!(L0)
    }
    Ok(o)
}

fn list_res<T: std::fmt::Display>(r: Result<Vec<T>, String>) -> OpResult {
    res(r, |o, v| {
        o.n(v.len());
        for x in v {
            o.n(x);
        }
    })
}

pub fn run_op(op: &str, fields: &[Vec<u8>]) -> OpResult {
    let mut f = Fields::new(fields);
    match op {
        "serve" => serve(&mut f),
        "req.parse" => res(Request::parse(&f.bytes()), |o, r| flat_request(o, &r)),
        "req.roundtrip" => {
            let r = read_request(&mut f);
            let bytes = r.generate();
            let mut o = Out::new();
            o.b(&bytes);
            match Request::parse(&bytes) {
                Ok(p) => {
                    o.s("ok");
                    flat_request(&mut o, &p);
                }
                Err(e) => {
                    o.s("err").s(&e);
                }
            }
            Ok(o)
        }
        "req.get_header" => {
            let r = read_request(&mut f);
            let n = f.num() as usize;
            let mut o = Out::new();
            for _ in 0..n {
                let name = f.string();
                match r.get_header(name) {
                    Some(h) => o.s("some").s(&h.name).s(&h.value),
                    None => o.s("none").s("").s(""),
                };
            }
            Ok(o)
        }
        "req.uri" => {
            // path / query accessors on a request with the given target
            let r = Request { method: "GET".into(), request_uri: f.string(), http_version: "HTTP/1.1".into(), headers: vec![], body: vec![] };
            let mut o = Out::new();
            match r.get_uri_path() {
                Ok(p) => o.s("ok").s(&p),
                Err(e) => o.s("err").s(&e),
            };
            match r.get_uri_query() {
                Ok(Some(m)) => {
                    o.s("some");
                    flat_map(&mut o, &m);
                }
                Ok(None) => {
                    o.s("none");
                }
                Err(e) => {
                    o.s("err").s(&e);
                }
            };
            Ok(o)
        }
        "resp.roundtrip" => {
            // serialiser: "assoc" = Response::generate_response(r, GET request), "inst" = r.generate()
            let which = f.string();
            let mut r = read_response(&mut f);
            let bytes = if which == "inst" {
                r.generate()
            } else {
                let req = Request { method: "GET".into(), request_uri: "/".into(), http_version: "HTTP/1.1".into(), headers: vec![], body: vec![] };
                Response::generate_response(r.clone(), req)
            };
            let mut o = Out::new();
            o.b(&bytes);
            // what the instance serialiser left in the caller's value
            o.n(r.headers.len());
            match Response::parse(&bytes) {
                Ok(p) => {
                    o.s("ok");
                    flat_response(&mut o, &p);
                }
                Err(e) => {
                    o.s("err").s(&e);
                }
            }
            Ok(o)
        }
        "resp.parse" => res(Response::parse(&f.bytes()), |o, r| flat_response(o, &r)),
        "resp._parse" => {
            let r = Response::_parse_response(&f.bytes());
            let mut o = Out::new();
            flat_response(&mut o, &r);
            Ok(o)
        }
        "resp.statuses" => {
            let mut o = Out::new();
            let l = Response::status_code_reason_phrase_list();
            o.n(l.len());
            for s in l {
                o.n(*s.status_code).s(s.reason_phrase);
            }
            Ok(o)
        }
        "mp.generate" => {
            let boundary = f.string();
            let parts = read_parts(&mut f);
            res(FormMultipartData::generate(parts, &boundary), |o, b| {
                o.b(&b);
            })
        }
        "mp.roundtrip" => {
            let gen_boundary = f.string();
            let mut parse_boundary = f.string();
            let parts = read_parts(&mut f);
            // "CT:<content type>": the boundary travels as the Content-Type parameter, like in a real request
            if let Some(ct) = parse_boundary.clone().strip_prefix("CT:") {
                parse_boundary = FormMultipartData::extract_boundary(ct)?;
            }
            let generated = FormMultipartData::generate(parts, &gen_boundary)?;
            let mut o = Out::new();
            o.b(&generated);
            match FormMultipartData::parse(&generated, parse_boundary) {
                Ok(p) => {
                    o.s("ok");
                    flat_parts(&mut o, &p);
                }
                Err(e) => {
                    o.s("err").s(&e);
                }
            }
            Ok(o)
        }
        "mp.parse" => {
            let boundary = f.string();
            let data = f.bytes();
            res(FormMultipartData::parse(&data, boundary), |o, p| flat_parts(o, &p))
        }
        "mp.boundary" => res(FormMultipartData::extract_boundary(&f.string()), |o, b| {
            o.s(&b);
        }),
        "query.roundtrip" => {
            let m = read_map(&mut f);
            let q = URL::build_query(m);
            let back = URL::parse_query(&q);
            let mut o = Out::new();
            o.s(&q);
            flat_map(&mut o, &back);
            Ok(o)
        }
        "query.parse" => {
            let back = URL::parse_query(&f.string());
            let mut o = Out::new();
            flat_map(&mut o, &back);
            Ok(o)
        }
        "form.roundtrip" => {
            let m = read_map(&mut f);
            let q = FormUrlEncoded::generate(m);
            let mut o = Out::new();
            o.s(&q);
            match FormUrlEncoded::parse(q.as_bytes().to_vec()) {
                Ok(back) => {
                    o.s("ok");
                    flat_map(&mut o, &back);
                }
                Err(e) => {
                    o.s("err").s(&e);
                }
            }
            Ok(o)
        }
        "form.parse" => res(FormUrlEncoded::parse(f.bytes()), |o, m| flat_map(o, &m)),
        "b64.encode" => res(Base64::encode(&f.bytes()), |o, s| {
            o.s(&s);
        }),
        "b64.decode" => {
            res(Base64::decode(f.string()), |o, v| {
                o.b(&v);
            })
        }
        "b64.roundtrip" => {
            let b = f.bytes();
            let enc = Base64::encode(&b)?;
            let mut o = Out::new();
            o.s(&enc);
            match Base64::decode(enc) {
                Ok(v) => o.s("ok").b(&v),
                Err(e) => o.s("err").s(&e),
            };
            Ok(o)
        }
        "json.roundtrip" => json_model_roundtrip(&mut f, 0),
        "json.roundtrip1" => json_model_roundtrip(&mut f, 1),
        "json.parse.props" => res(JSON::parse_as_properties(f.string()), |o, v| {
            o.n(v.len());
            for (p, val) in v {
                o.s(&p.property_name).s(&p.property_type).s(&val.to_string());
            }
        }),
        "json.parse.prop" => res(JSONProperty::parse(&f.string()), |o, (p, val)| {
            o.s(&p.property_name).s(&p.property_type).s(&val.to_string());
        }),
        "json.parse.split" => res(RawUnprocessedJSONArray::split_into_vector_of_strings(f.string()), |o, v| {
            o.n(v.len());
            for x in v {
                o.s(&x);
            }
        }),
        "json.parse.l_str" => res(JSONArrayOfStrings::parse_as_list_string(f.string()), |o, v| {
            o.n(v.len());
            for x in v {
                o.s(&x);
            }
        }),
        "json.parse.l_bool" => list_res(JSONArrayOfBooleans::parse_as_list_bool(f.string())),
        "json.parse.l_null" => res(JSONArrayOfNulls::parse_as_list_null(f.string()), |o, v| {
            o.n(v.len());
        }),
        "json.parse.l_f32" => list_res(JSONArrayOfFloats::parse_as_list_f32(f.string())),
        "json.parse.l_f64" => list_res(JSONArrayOfFloats::parse_as_list_f64(f.string())),
        "json.parse.l_i8" => list_res(JSONArrayOfIntegers::parse_as_list_i8(f.string())),
        "json.parse.l_i16" => list_res(JSONArrayOfIntegers::parse_as_list_i16(f.string())),
        "json.parse.l_i32" => list_res(JSONArrayOfIntegers::parse_as_list_i32(f.string())),
        "json.parse.l_i64" => list_res(JSONArrayOfIntegers::parse_as_list_i64(f.string())),
        "json.parse.l_i128" => list_res(JSONArrayOfIntegers::parse_as_list_i128(f.string())),
        "json.parse.l_u8" => list_res(JSONArrayOfIntegers::parse_as_list_u8(f.string())),
        "json.parse.l_u16" => list_res(JSONArrayOfIntegers::parse_as_list_u16(f.string())),
        "json.parse.l_u32" => list_res(JSONArrayOfIntegers::parse_as_list_u32(f.string())),
        "json.parse.l_u64" => list_res(JSONArrayOfIntegers::parse_as_list_u64(f.string())),
        "json.parse.l_u128" => list_res(JSONArrayOfIntegers::parse_as_list_u128(f.string())),
        "json.parse.l_obj" => res(JSONArrayOfObjects::<L1>::from_json(f.string()), |o, v| {
            o.n(v.len());
        }),
        "json.parse.struct" => {
            let mut v = L0::new();
            res(v.parse(f.string()), |o, _| {
                o.s("ok");
            })
        }
        "cors.headers" => {
            let r = read_request(&mut f);
            let l = Cors::get_headers(&r);
            let mut o = Out::new();
            o.n(l.len());
            for h in l {
                o.s(&h.name).s(&h.value);
            }
            Ok(o)
        }
        "hdr.list" => {
            let r = read_request(&mut f);
            let l = Header::get_header_list(&r);
            let mut o = Out::new();
            o.n(l.len());
            for h in l {
                o.s(&h.name).s(&h.value);
            }
            Ok(o)
        }
        "range.parse" => {
            let len = f.num() as u64;
            let s = f.string();
            match Range::parse_range_in_content_range(len, &s) {
                Ok(r) => {
                    let mut o = Out::new();
                    o.n(r.start).n(r.end);
                    Ok(o)
                }
                Err(e) => Err(format!("{}:{}", e.status_code_reason_phrase.status_code, e.message)),
            }
        }
        "range.content" => {
            // Range::parse_content_range(filepath, filelength, raw_range_value)
            let path = f.string();
            let len = f.num() as u64;
            let s = f.string();
            match Range::parse_content_range(&path, len, &s) {
                Ok(l) => {
                    let mut o = Out::new();
                    flat_ranges(&mut o, &l);
                    Ok(o)
                }
                Err(e) => Err(format!("{}:{}", e.status_code_reason_phrase.status_code, e.message)),
            }
        }
        "range.crhv" => res(Range::_parse_content_range_header_value(f.string()), |o, (a, b, c)| {
            o.n(a).n(b).n(c);
        }),
        "range.rawcrhv" => res(Range::_parse_raw_content_range_header_value(&f.string()), |o, (a, b, c)| {
            o.n(a).n(b).n(c);
        }),
        "range.mp" => {
            let data = f.bytes();
            let mut c = Cursor::new(&data[..]);
            res(Range::parse_multipart_body(&mut c, vec![]), |o, l| flat_ranges(o, &l))
        }
        "range._mp" => {
            let data = f.bytes();
            let mut c = Cursor::new(&data[..]);
            res(Range::_parse_multipart_body(&mut c, vec![]), |o, l| flat_ranges(o, &l))
        }
        "range.mpb" => {
            let boundary = f.string();
            let data = f.bytes();
            let total = data.len() as i32;
            let mut c = Cursor::new(&data[..]);
            res(Range::parse_multipart_body_with_boundary(&mut c, vec![], boundary, total, 0, false), |o, l| flat_ranges(o, &l))
        }
        "hdr.parse" => res(Header::parse(&f.string()), |o, h| {
            o.s(&h.name).s(&h.value);
        }),
        "hdr.parse_header" => res(Header::parse_header(&f.string()), |o, h| {
            o.s(&h.name).s(&h.value);
        }),
        "resp.hdr" => res(Response::parse_http_response_header_string(&f.string()), |o, h| {
            o.s(&h.name).s(&h.value);
        }),
        "resp._hdr" => {
            let h = Response::_parse_http_response_header_string(&f.string());
            let mut o = Out::new();
            o.s(&h.name).s(&h.value);
            Ok(o)
        }
        "resp.status_line" => res(Response::_parse_http_version_status_code_reason_phrase_string(&f.string()), |o, (a, b, c)| {
            o.s(&a).n(b).s(&c);
        }),
        "req.hdr" => {
            let h = Request::parse_http_request_header_string(&f.string());
            let mut o = Out::new();
            o.s(&h.name).s(&h.value);
            Ok(o)
        }
        "req.line" => res(Request::parse_method_and_request_uri_and_http_version_string(&f.string()), |o, (a, b, c)| {
            o.s(&a).s(&b).s(&c);
        }),
        "cd.parse" => res(ContentDisposition::parse(&f.string()), |o, c| {
            o.s(&c.disposition_type).s(&c.field_name.unwrap_or("<none>".into())).s(&c.file_name.unwrap_or("<none>".into()));
        }),
        "cfg.read" => {
            let data = f.bytes();
            let prefix = f.string();
            let c = Cursor::new(&data[..]);
            res(read_config_file(c, prefix), |o, b| {
                o.n(b);
            })
        }
        "urlpath.parts" => res(UrlPath::extract_parts_from_pattern(&f.string()), |o, v| {
            o.n(v.len());
        }),
        "urlpath.is_matching" => {
            let a = f.string();
            let b = f.string();
            res(UrlPath::is_matching(&a, &b), |o, v| {
                o.n(v);
            })
        }
        "urlpath.extract" => {
            let a = f.string();
            let b = f.string();
            res(UrlPath::extract(&a, &b), |o, m| flat_map(o, &m))
        }
        "urlpath.build" => {
            let m = read_map(&mut f);
            let b = f.string();
            res(UrlPath::build(m, &b), |o, s| {
                o.s(&s);
            })
        }
        "url.parse" => res(URL::parse(&f.string()), |o, c| {
            o.s(&c.scheme).s(&c.path).s(&c.fragment.unwrap_or("<none>".into()));
            match c.query {
                Some(m) => {
                    o.s("some");
                    flat_map(o, &m);
                }
                None => {
                    o.s("none");
                }
            }
        }),
        "url.decode" => {
            let mut o = Out::new();
            o.s(&URL::percent_decode(&f.string()));
            Ok(o)
        }
        "url.encode" => {
            let mut o = Out::new();
            o.s(&URL::percent_encode(&f.string()));
            Ok(o)
        }
        "mime.detect" => {
            let mut o = Out::new();
            o.s(&MimeType::detect_mime_type(&f.string()));
            Ok(o)
        }
        "noop" => Ok(Out::new()),
        "selftest.panic" => panic!("selftest panic {}", f.string()),
        "selftest.overflow" => {
            let a = f.num() as u8;
            let b = std::hint::black_box(a) + std::hint::black_box(200u8);
            let mut o = Out::new();
            o.n(b);
            Ok(o)
        }
        "selftest.stack" => {
            fn rec(n: u64) -> u64 {
                let a = [n; 64];
                if n == 0 { 0 } else { std::hint::black_box(rec(n - 1)) + std::hint::black_box(a[(n % 64) as usize]) }
            }
            let mut o = Out::new();
            o.n(rec(f.num() as u64));
            Ok(o)
        }
        _ => Err(format!("harness: unknown op {}", op)),
    }
}

/// Runs all cases of `cases_path` on the calling (named) thread.
pub fn run_file(cases_path: &str, obs_path: &str, journal_path: &str) {
    let cases = std::fs::read_to_string(cases_path).expect("read cases");
    let mut obs = std::io::BufWriter::new(std::fs::OpenOptions::new().create(true).append(true).open(obs_path).expect("open obs"));
    let mut journal = std::fs::OpenOptions::new().create(true).append(true).open(journal_path).expect("open journal");
    for line in cases.lines() {
        if line.is_empty() {
            continue;
        }
        let case = match Case::parse(line) {
            Some(c) => c,
            None => continue,
        };
        // journal first: if the process dies inside the case, the parent knows which one
        let _ = writeln!(journal, "{}", case.id);
        let _ = journal.flush();
        *LAST_PANIC.lock().unwrap_or_else(|e| e.into_inner()) = None;
        *LAST_SERVE.lock().unwrap_or_else(|e| e.into_inner()) = None;
        let t0 = Instant::now();
        let r = catch_unwind(AssertUnwindSafe(|| run_op(&case.op, &case.fields)));
        let ns = t0.elapsed().as_nanos();
        let mut line_out = format!("{}\t", case.id);
        match r {
            Ok(Ok(o)) => {
                line_out.push_str(&format!("ok\t{}", ns));
                for f in o.fields {
                    line_out.push('\t');
                    line_out.push_str(&hex(&f));
                }
            }
            Ok(Err(e)) => {
                line_out.push_str(&format!("err\t{}\t{}", ns, hex(e.as_bytes())));
            }
            Err(_) => {
                let p = LAST_PANIC.lock().unwrap_or_else(|e| e.into_inner()).clone().unwrap_or(("?".into(), "?".into(), 0));
                line_out.push_str(&format!("panic\t{}\t{}\t{}\t{}", ns, hex(p.0.as_bytes()), hex(p.1.as_bytes()), hex(p.2.to_string().as_bytes())));
                if let Some(rec) = LAST_SERVE.lock().unwrap_or_else(|e| e.into_inner()).as_ref() {
                    let rec = rec.lock().unwrap_or_else(|e| e.into_inner());
                    line_out.push_str(&format!("\t{}\t{}\t{}", hex(rec.writes.len().to_string().as_bytes()), hex(&rec.accepted), hex(rec.flushes.to_string().as_bytes())));
                }
            }
        }
        let _ = writeln!(obs, "{}", line_out);
        let _ = obs.flush();
    }
}


/// Cold concurrent first use: a fresh process, `threads` named threads released by a spin barrier, every thread
/// executes each case of the file once (in file order) as the very first use of that code in the process.
/// Output: one line per (thread, case): `<thread>\t<case id>\tok|err|panic\t<hex fields...>`.
pub fn run_cold_race(cases_path: &str, out_path: &str, threads: usize) {
    use std::sync::atomic::{AtomicUsize, Ordering};
    use std::sync::Arc;
    let cases: Vec<Case> = std::fs::read_to_string(cases_path).expect("read cases").lines().filter_map(|l| Case::parse(l)).collect();
    let cases = Arc::new(cases);
    let ready = Arc::new(AtomicUsize::new(0));
    let mut handles = vec![];
    for t in 0..threads {
        let (cases, ready) = (cases.clone(), ready.clone());
        let h = std::thread::Builder::new().name(t.to_string()).stack_size(2 * 1024 * 1024).spawn(move || {
            ready.fetch_add(1, Ordering::SeqCst);
            while ready.load(Ordering::SeqCst) < threads {
                std::hint::spin_loop();
            }
            let mut lines = vec![];
            for case in cases.iter() {
                let r = catch_unwind(AssertUnwindSafe(|| run_op(&case.op, &case.fields)));
                let mut l = format!("{}\t{}\t", t, case.id);
                match r {
                    Ok(Ok(o)) => {
                        l.push_str("ok");
                        for f in o.fields {
                            l.push('\t');
                            l.push_str(&hex(&f));
                        }
                    }
                    Ok(Err(e)) => l.push_str(&format!("err\t{}", hex(e.as_bytes()))),
                    Err(_) => l.push_str("panic"),
                }
                lines.push(l);
            }
            lines
        }).expect("spawn");
        handles.push(h);
    }
    let mut out = std::io::BufWriter::new(std::fs::File::create(out_path).expect("out"));
    for h in handles {
        if let Ok(lines) = h.join() {
            for l in lines {
                let _ = writeln!(out, "{}", l);
            }
        }
    }
    let _ = out.flush();
}

//! Small pool workloads for `cargo +nightly miri run` (randomised scheduler, data-race and deadlock
//! detection, no clocks). argv: <workers> <tasks> <kind: instant|rendezvous>
//! Exit 0 and prints `MIRI-POOL ok ...` when every task ran exactly once; Miri itself reports
//! deadlocks ("the evaluated program deadlocked") and races.

use rws::thread_pool::ThreadPool;
use std::sync::atomic::{AtomicUsize, Ordering};
use std::sync::{Arc, Condvar, Mutex};

fn main() {
    let args: Vec<String> = std::env::args().collect();
    let n: usize = args.get(1).and_then(|s| s.parse().ok()).unwrap_or(2);
    let t: usize = args.get(2).and_then(|s| s.parse().ok()).unwrap_or(4);
    let kind = args.get(3).cloned().unwrap_or("instant".to_string());
    let pool = ThreadPool::new(n);
    let counts: Arc<Vec<AtomicUsize>> = Arc::new((0..t).map(|_| AtomicUsize::new(0)).collect());
    let done = Arc::new((Mutex::new(0usize), Condvar::new()));
    let k = n.min(t);
    let bar = Arc::new((Mutex::new(0usize), Condvar::new()));
    for id in 0..t {
        let (counts, done, bar, kind) = (counts.clone(), done.clone(), bar.clone(), kind.clone());
        pool.execute(move || {
            counts[id].fetch_add(1, Ordering::SeqCst);
            if kind == "rendezvous" && id < k {
                // completes only if k tasks run simultaneously; otherwise every thread blocks and Miri
                // reports a deadlock
                let (m, cv) = &*bar;
                let mut g = m.lock().unwrap();
                *g += 1;
                cv.notify_all();
                while *g < k {
                    g = cv.wait(g).unwrap();
                }
            }
            let (m, cv) = &*done;
            *m.lock().unwrap() += 1;
            cv.notify_all();
        });
    }
    let (m, cv) = &*done;
    let mut g = m.lock().unwrap();
    while *g < t {
        g = cv.wait(g).unwrap();
    }
    drop(g);
    let bad: Vec<usize> = (0..t).filter(|i| counts[*i].load(Ordering::SeqCst) != 1).collect();
    if !bad.is_empty() {
        println!("MIRI-POOL violation tasks-not-exactly-once {:?}", bad);
        std::process::exit(1);
    }
    println!("MIRI-POOL ok workers={} tasks={} kind={}", n, t, kind);
    std::mem::forget(pool);
    std::process::exit(0);
}

//! `vh pool` / `vh conc`: workloads on the real `ThreadPool`, observed through the cfg(rws_verif)
//! hook points. Events go to an append-only log which Python checks offline (vf/trace.py).

use std::io::Write;
use std::sync::atomic::{AtomicBool, AtomicU64, AtomicUsize, Ordering};
use std::sync::{Arc, Condvar, Mutex};
use std::time::{Duration, Instant};

use rws::app::App;
use rws::core::New;
use rws::server::Server;
use rws::thread_pool::ThreadPool;
use rws::verif_hooks::{self, Point};

use crate::codec::{hex, Case, Fields};
use crate::probe::{conn_info, ErrApp, OkApp};
use crate::transport::{parse_write_script, ReadScript, Record, Scripted};

pub struct Event {
    pub seq: u64,
    pub ns: u128,
    pub thread: String,
    pub point: String,
    pub arg: i64,
}

pub struct Log {
    pub events: Mutex<Vec<Event>>,
    pub t0: Instant,
    pub perturb_seed: AtomicU64,
    pub perturb_on: AtomicBool,
    pub counter: AtomicU64,
}

static LOG: std::sync::OnceLock<Arc<Log>> = std::sync::OnceLock::new();

pub fn log() -> &'static Arc<Log> {
    LOG.get_or_init(|| {
        Arc::new(Log {
            events: Mutex::new(Vec::new()),
            t0: Instant::now(),
            perturb_seed: AtomicU64::new(0),
            perturb_on: AtomicBool::new(false),
            counter: AtomicU64::new(0),
        })
    })
}

pub fn record(point: &str, arg: i64) {
    let l = log();
    let thread = std::thread::current().name().unwrap_or("?").to_string();
    let mut ev = l.events.lock().unwrap_or_else(|e| e.into_inner());
    let seq = ev.len() as u64;
    ev.push(Event { seq, ns: l.t0.elapsed().as_nanos(), thread, point: point.to_string(), arg });
}

fn splitmix(mut x: u64) -> u64 {
    x = x.wrapping_add(0x9E3779B97F4A7C15);
    let mut z = x;
    z = (z ^ (z >> 30)).wrapping_mul(0xBF58476D1CE4E5B9);
    z = (z ^ (z >> 27)).wrapping_mul(0x94D049BB133111EB);
    z ^ (z >> 31)
}

fn perturb(point: Point, worker: usize) {
    let l = log();
    if !l.perturb_on.load(Ordering::Relaxed) {
        return;
    }
    let c = l.counter.fetch_add(1, Ordering::Relaxed);
    let seed = l.perturb_seed.load(Ordering::Relaxed);
    let r = splitmix(seed ^ c.wrapping_mul(0x100000001B3) ^ ((point as u64) << 56) ^ ((worker as u64) << 48));
    match r % 8 {
        0 | 1 | 2 => {}
        3 | 4 => std::thread::yield_now(),
        5 => {
            let n = (r >> 8) % 2000;
            for i in 0..n {
                std::hint::black_box(i);
            }
        }
        _ => std::thread::sleep(Duration::from_micros(50 + (r >> 8) % 450)),
    }
}

/// last hook point per worker; survives the per-scenario clearing of the event log
static LAST_POINT: Mutex<Vec<String>> = Mutex::new(Vec::new());

pub fn install_hook() {
    let _ = log();
    verif_hooks::set(Box::new(|point, worker| {
        if point != Point::Submit {
            let mut lp = LAST_POINT.lock().unwrap_or_else(|e| e.into_inner());
            if lp.len() <= worker {
                lp.resize(worker + 1, "none".to_string());
            }
            lp[worker] = format!("{:?}", point);
        }
        record(&format!("{:?}", point), worker as i64);
        perturb(point, worker);
    }));
}

struct Shared {
    running: AtomicUsize,
    max_running: AtomicUsize,
    started: AtomicUsize,
    ended: AtomicUsize,
}

fn task_start(sh: &Shared, id: i64) {
    record("TaskStart", id);
    sh.started.fetch_add(1, Ordering::SeqCst);
    let now = sh.running.fetch_add(1, Ordering::SeqCst) + 1;
    sh.max_running.fetch_max(now, Ordering::SeqCst);
}

fn task_end(sh: &Shared, id: i64) {
    sh.running.fetch_sub(1, Ordering::SeqCst);
    record("TaskEnd", id);
    sh.ended.fetch_add(1, Ordering::SeqCst);
}

struct Barrier {
    need: usize,
    state: Mutex<(usize, bool)>, // (arrived, timed_out)
    cv: Condvar,
}

impl Barrier {
    /// Returns true if the rendezvous completed, false if the no-progress watchdog fired.
    fn wait(&self, watchdog: Duration) -> bool {
        let mut g = self.state.lock().unwrap();
        g.0 += 1;
        self.cv.notify_all();
        let mut last_progress = Instant::now();
        let mut last_seen = g.0;
        while g.0 < self.need && !g.1 {
            let (ng, _) = self.cv.wait_timeout(g, Duration::from_millis(200)).unwrap();
            g = ng;
            if g.0 != last_seen {
                last_seen = g.0;
                last_progress = Instant::now();
            }
            if last_progress.elapsed() > watchdog {
                g.1 = true;
                self.cv.notify_all();
            }
        }
        !g.1
    }
}

struct Gate {
    open: Mutex<bool>,
    cv: Condvar,
}

fn wait_until(cond: impl Fn() -> bool, progress: impl Fn() -> usize, watchdog: Duration) -> bool {
    let mut last = progress();
    let mut last_t = Instant::now();
    loop {
        if cond() {
            return true;
        }
        std::thread::sleep(Duration::from_micros(200));
        let p = progress();
        if p != last {
            last = p;
            last_t = Instant::now();
        }
        if last_t.elapsed() > watchdog {
            return cond();
        }
    }
}

/// Last hook event per worker thread name.
fn census(n: usize) -> Vec<String> {
    let lp = LAST_POINT.lock().unwrap_or_else(|e| e.into_inner());
    (0..n).map(|w| lp.get(w).cloned().unwrap_or("none".to_string())).collect()
}

fn quiescent(n: usize) -> bool {
    let c = census(n);
    let locked = c.iter().filter(|x| x.as_str() == "Locked").count();
    c.iter().all(|x| x == "BeforeLock" || x == "Locked") && locked <= 1
}

fn events_len() -> usize {
    log().events.lock().unwrap_or_else(|e| e.into_inner()).len()
}

fn dump_events(out: &mut impl Write, scenario: &str) {
    let l = log();
    let mut ev = l.events.lock().unwrap_or_else(|e| e.into_inner());
    for e in ev.iter() {
        let _ = writeln!(out, "EV\t{}\t{}\t{}\t{}\t{}\t{}", scenario, e.seq, e.ns, e.thread, e.point, e.arg);
    }
    ev.clear();
}

fn make_serve_job(fields: &[Vec<u8>]) -> (Box<dyn FnOnce() -> Result<(), String> + Send>, Arc<Mutex<Record>>) {
    let mut f = Fields::new(fields);
    let _entry = f.string();
    let handler = f.string();
    let request_size = f.num() as i64;
    let read_script = if f.string() == "err" { ReadScript::Err } else { ReadScript::Ok };
    let write_script = parse_write_script(&f.string());
    let flush_err = f.string() == "err";
    let request = f.bytes();
    let (stream, rec) = Scripted::new(request, read_script, write_script, flush_err);
    let c = conn_info(request_size);
    let job: Box<dyn FnOnce() -> Result<(), String> + Send> = match handler.as_str() {
        "err" => Box::new(move || Server::process(stream, c, ErrApp::new())),
        "ok" => Box::new(move || Server::process(stream, c, OkApp::new())),
        _ => Box::new(move || Server::process(stream, c, App::new())),
    };
    (job, rec)
}

/// spec file lines:  `<scenario-id> <kind> <T> <perturb-seed>`; kind `faulty` / `conc` is followed by T case lines.
pub fn run(n: usize, spec_path: &str, out_path: &str, watchdog_s: u64) {
    install_hook();
    let watchdog = Duration::from_secs(watchdog_s);
    let spec = std::fs::read_to_string(spec_path).expect("spec");
    let mut out = std::io::BufWriter::new(std::fs::File::create(out_path).expect("out"));
    let pool = ThreadPool::new(n);
    let mut lines = spec.lines().peekable();
    let mut next_id: i64 = 0;
    let mut flagged = 0;
    while let Some(line) = lines.next() {
        let p: Vec<&str> = line.split_whitespace().collect();
        if p.len() < 4 {
            continue;
        }
        let (scn, kind, t, pseed) = (p[0].to_string(), p[1].to_string(), p[2].parse::<usize>().unwrap_or(0), p[3].parse::<u64>().unwrap_or(0));
        let l = log();
        l.perturb_seed.store(pseed, Ordering::Relaxed);
        l.counter.store(0, Ordering::Relaxed);
        l.perturb_on.store(pseed != 0, Ordering::Relaxed);
        let sh = Arc::new(Shared { running: AtomicUsize::new(0), max_running: AtomicUsize::new(0), started: AtomicUsize::new(0), ended: AtomicUsize::new(0) });
        let mut flags: Vec<String> = vec![];
        let mut submitted = 0usize;
        let first_id = next_id;
        let mut serve_recs: Vec<(i64, String, Arc<Mutex<Record>>, Arc<Mutex<Option<Result<(), String>>>>)> = vec![];
        match kind.as_str() {
            "instant" => {
                for _ in 0..t {
                    let (sh2, id) = (sh.clone(), next_id);
                    next_id += 1;
                    record("SubmitTask", id);
                    pool.execute(move || {
                        task_start(&sh2, id);
                        let mut x = 0u64;
                        for i in 0..(splitmix(id as u64) % 3000) {
                            x = x.wrapping_add(std::hint::black_box(i));
                        }
                        std::hint::black_box(x);
                        task_end(&sh2, id);
                    });
                    submitted += 1;
                }
            }
            "rendezvous" => {
                let k = n.min(t);
                let bar = Arc::new(Barrier { need: k, state: Mutex::new((0, false)), cv: Condvar::new() });
                let timed_out = Arc::new(AtomicBool::new(false));
                for j in 0..t {
                    let (sh2, id, bar2, to2) = (sh.clone(), next_id, bar.clone(), timed_out.clone());
                    next_id += 1;
                    record("SubmitTask", id);
                    let is_rv = j < k;
                    pool.execute(move || {
                        task_start(&sh2, id);
                        if is_rv && !bar2.wait(watchdog) {
                            to2.store(true, Ordering::SeqCst);
                        }
                        task_end(&sh2, id);
                    });
                    submitted += 1;
                }
                let ok = wait_until(|| sh.ended.load(Ordering::SeqCst) == submitted, events_len, watchdog + Duration::from_secs(2));
                if timed_out.load(Ordering::SeqCst) || !ok {
                    flags.push("rendezvous-incomplete".to_string());
                }
                flags.push(format!("k={}", k));
            }
            "slow" => {
                // one long task + t instant tasks; the long one is released only after all instant ones ended
                let gate = Arc::new(Gate { open: Mutex::new(false), cv: Condvar::new() });
                let (sh2, id, g2) = (sh.clone(), next_id, gate.clone());
                next_id += 1;
                record("SubmitTask", id);
                pool.execute(move || {
                    task_start(&sh2, id);
                    let mut o = g2.open.lock().unwrap();
                    while !*o {
                        o = g2.cv.wait(o).unwrap();
                    }
                    drop(o);
                    task_end(&sh2, id);
                });
                submitted += 1;
                // make sure the long task has been taken by a worker before the instant ones are queued
                let began = wait_until(|| sh.started.load(Ordering::SeqCst) >= 1, events_len, watchdog);
                if !began {
                    flags.push("long-task-never-started".to_string());
                }
                for _ in 0..t {
                    let (sh2, id) = (sh.clone(), next_id);
                    next_id += 1;
                    record("SubmitTask", id);
                    pool.execute(move || {
                        task_start(&sh2, id);
                        task_end(&sh2, id);
                    });
                    submitted += 1;
                }
                let instant_done = if n >= 2 {
                    wait_until(|| sh.ended.load(Ordering::SeqCst) == t, events_len, watchdog)
                } else {
                    true // with one worker nothing can overtake the long task; not asserted
                };
                if !instant_done {
                    flags.push("instant-tasks-blocked-behind-long-task".to_string());
                }
                record("ReleaseLong", id);
                *gate.open.lock().unwrap() = true;
                gate.cv.notify_all();
            }
            "panicky" => {
                // every task panics, each with another kind of payload (the pool must survive all of them and keep its size)
                struct EndGuard(Arc<Shared>, i64);
                impl Drop for EndGuard {
                    fn drop(&mut self) {
                        task_end(&self.0, self.1);
                    }
                }
                for j in 0..t {
                    let (sh2, id) = (sh.clone(), next_id);
                    next_id += 1;
                    record("SubmitTask", id);
                    pool.execute(move || {
                        task_start(&sh2, id);
                        let _g = EndGuard(sh2, id);
                        match j % 12 {
                            0 => panic!("short"),
                            1 => panic!("{}", "long ascii payload ".repeat(40)),
                            2 => panic!("{}", "\u{e9}".repeat(400)),
                            3 => panic!("x{}", "\u{e9}".repeat(400)),
                            4 => panic!("{}", "\u{20ac}".repeat(300)),
                            5 => panic!("x{}", "\u{20ac}".repeat(300)),
                            6 => panic!("xx{}", "\u{1F600}".repeat(200)),
                            7 => panic!("line one\r\nline two\n\0 nul {} {{}} %s", id),
                            8 => std::panic::panic_any(42i32),
                            9 => std::panic::panic_any(Box::<dyn std::error::Error + Send + Sync>::from("boxed error")),
                            10 => std::panic::resume_unwind(Box::new(())),
                            _ => panic!("{}", String::new()),
                        }
                    });
                    submitted += 1;
                }
            }
            "faulty" | "conc" => {
                for _ in 0..t {
                    let cl = match lines.next() {
                        Some(x) => x,
                        None => break,
                    };
                    let case = match Case::parse(cl) {
                        Some(c) => c,
                        None => continue,
                    };
                    let (job, rec) = make_serve_job(&case.fields);
                    let result: Arc<Mutex<Option<Result<(), String>>>> = Arc::new(Mutex::new(None));
                    let (sh2, id, r2) = (sh.clone(), next_id, result.clone());
                    next_id += 1;
                    serve_recs.push((id, case.id.clone(), rec, result));
                    record("SubmitTask", id);
                    // same shape as the closure in Server::run: run, print the error, nothing else
                    pool.execute(move || {
                        task_start(&sh2, id);
                        let boxed_process = job();
                        *r2.lock().unwrap() = Some(boxed_process.clone());
                        if boxed_process.is_err() {
                            eprintln!("{}", boxed_process.err().unwrap());
                        }
                        task_end(&sh2, id);
                    });
                    submitted += 1;
                }
            }
            _ => {}
        }
        // quiescence: every started task ended or its worker is gone; no-progress watchdog on the event log
        let all_ended = wait_until(|| sh.ended.load(Ordering::SeqCst) == submitted, events_len, if kind == "faulty" { Duration::from_secs(2) } else { watchdog });
        if !all_ended {
            flags.push("not-all-tasks-ended".to_string());
        }
        let q = wait_until(|| quiescent(n), events_len, Duration::from_secs(2));
        if !q {
            flags.push("workers-not-back-in-loop".to_string());
        }
        l.perturb_on.store(false, Ordering::Relaxed);
        let c = census(n);
        let _ = writeln!(
            out,
            "SCN\t{}\t{}\t{}\t{}\t{}\t{}\t{}\t{}\t{}\t{}\t{}",
            scn, kind, n, submitted, first_id,
            sh.started.load(Ordering::SeqCst), sh.ended.load(Ordering::SeqCst), sh.max_running.load(Ordering::SeqCst),
            pseed, c.join(","), if flags.is_empty() { "-".to_string() } else { flags.join(",") }
        );
        for (id, cid, rec, result) in serve_recs {
            let rec = rec.lock().unwrap_or_else(|e| e.into_inner());
            let r = match &*result.lock().unwrap_or_else(|e| e.into_inner()) {
                None => "none".to_string(),
                Some(Ok(())) => "ok".to_string(),
                Some(Err(e)) => format!("err:{}", e),
            };
            let w: Vec<String> = rec.writes.iter().map(|(a, b)| format!("{}:{}", a, b)).collect();
            let _ = writeln!(out, "RESP\t{}\t{}\t{}\t{}\t{}\t{}\t{}", scn, id, cid, hex(r.as_bytes()), hex(w.join(";").as_bytes()), hex(&rec.accepted), rec.flushes);
        }
        for (th, msg, ff) in crate::probe::PANICS.lock().unwrap_or_else(|e| e.into_inner()).drain(..) {
            let _ = writeln!(out, "PANIC\t{}\t{}\t{}\t{}", scn, th, hex(msg.as_bytes()), hex(ff.as_bytes()));
        }
        dump_events(&mut out, &scn);
        let _ = out.flush();
        if flags.iter().any(|f| !f.starts_with("k=")) && kind != "faulty" {
            flagged += 1;
            if flagged >= 2 {
                // the violation is on record; do not wait out more watchdogs
                break;
            }
        }
    }
    let _ = out.flush();
    // never drop the pool: its workers would spin on a disconnected channel
    std::mem::forget(pool);
}
